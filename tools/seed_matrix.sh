#!/bin/bash
# Run every check (quick tier) against every kept first-round seed to fill the "also caught by" column.
cd "$(dirname "$0")/.."
for d in seeded/C??-[AB]; do
  n=$(basename $d); pid=${n%-*}; var=${n#*-}
  python3 tools/seed_process.py /tmp/seed_$pid $var 2>&1 | grep "kept as\|NOT CONFIRMED"
done
