#!/bin/bash
# Run every check (quick tier) against every kept seed to fill the "also caught by" column of seeded/README.md.
# Patches are applied only in /tmp/seedtest_wt (a scratch worktree), never in /repo.
cd "$(dirname "$0")/.."
for d in seeded/C??-[AB] seeded/C??-[AB]2; do
  [ -d "$d" ] || continue
  n=$(basename $d); pid=${n%%-*}; var=${n#*-}
  if [[ "$var" == *2 ]]; then
    python3 tools/seed_process.py /tmp/seed_$pid ${var%2} --out=_out2 --suffix=2 2>&1 | grep "kept as\|NOT CONFIRMED"
  else
    python3 tools/seed_process.py /tmp/seed_$pid $var 2>&1 | grep "kept as\|NOT CONFIRMED"
  fi
done
python3 tools/seeded_readme.py > /dev/null
