#!/usr/bin/env python3
"""Re-run every kept seed's demonstration on the current HEAD of /repo (scratch worktree): pristine -> 0, patched -> 1.
A later fix: commit can make an older seeded breakage unobservable (e.g. one that needed a pickle clone to differ from
its original in function identity); meta.json then gets "manifests_at_head": false."""
import glob, json, os, subprocess
VERIF = os.path.dirname(os.path.dirname(os.path.abspath(__file__)))
WT = os.environ.get("SEED_WT", "/tmp/seedtest_wt")
if not os.path.isdir(WT):
    subprocess.run("git -C /repo worktree add -q --detach %s main" % WT, shell=True)  # scratch worktree: remove it when done
def sh(c, **kw): return subprocess.run(c, shell=True, capture_output=True, text=True, **kw)
sh("git -C %s checkout -q -- . ; git -C %s checkout -q --detach main" % (WT, WT))
bad = []
for d in sorted(glob.glob(os.path.join(VERIF, "seeded", "C??-*"))):
    mp = os.path.join(d, "meta.json")
    m = json.load(open(mp))
    if not m.get("applies_to_head", True):
        continue
    sh("git -C %s checkout -q -- ." % WT)
    if sh("git -C %s apply %s" % (WT, os.path.join(d, "patch.diff"))).returncode != 0:
        continue
    try:
        r = subprocess.run(["/venv/bin/python", os.path.join(d, "demo.py")], env=dict(os.environ, PYTHONPATH=WT), capture_output=True, text=True, cwd=WT, timeout=600)
        rc = r.returncode
    except subprocess.TimeoutExpired:
        rc = -1
    m["manifests_at_head"] = rc == 1
    json.dump(m, open(mp, "w"), indent=1)
    if rc != 1:
        bad.append((os.path.basename(d), rc))
sh("git -C %s checkout -q -- ." % WT)
print("demonstrations that no longer fail with the patch on HEAD:", bad)
