#!/bin/bash
# Run the repository's pinned baseline suite with every hook guard OFF and compare with BASELINE.json.
# exit 0 iff every stable_pass test passed.
set -u
unset HISTOGRAMMAR_PYTHON_VERIF
OUTDIR=${1:-/verif/out/baseline}
mkdir -p "$OUTDIR"
cd /repo && /venv/bin/python -m pytest -q -p no:cacheprovider --timeout=900 --continue-on-collection-errors \
  --junitxml="$OUTDIR/junit.xml" > "$OUTDIR/log.txt" 2>&1
python3 - "$OUTDIR/junit.xml" <<'PY'
import json, sys, xml.etree.ElementTree as ET
base = json.load(open('/root/.vp/BASELINE.json'))
want = set(base['stable_pass'])
got = set()
for tc in ET.parse(sys.argv[1]).getroot().iter('testcase'):
    ok = not any(c.tag in ('failure', 'error', 'skipped') for c in tc)
    if ok:
        got.add(f"{tc.get('classname')}::{tc.get('name')}")
missing = sorted(want - got)
print(f"baseline: {len(want & got)}/{len(want)} stable tests passed")
for m in missing:
    print("MISSING", m)
sys.exit(1 if missing else 0)
PY
