#!/usr/bin/env python3
"""tools/seed_process.py <worktree> <A|B> [--checks C01,C02,...] [--thorough-if-missed]

Confirm an independently written seeded breakage and run the checks against it:
  1. pristine worktree: the demonstration exits 0;
  2. patch applied:     the demonstration exits 1 and the repository's baseline suite stays 79/79;
  3. every requested check (default: all 17, quick tier) is run against the patched worktree (HGMON_REPO);
     if the property's own check misses it in the quick tier, its thorough tier is run as well.
If 1-2 hold the change is kept as /verif/seeded/<property>-<variant>/ (patch.diff, demo.py, meta.json).
Nothing is ever applied to /repo.
"""
import json
import os
import shutil
import subprocess
import sys

VERIF = os.path.dirname(os.path.dirname(os.path.abspath(__file__)))
ALL = ["C%02d" % i for i in range(1, 18)]


def sh(cmd, **kw):
    return subprocess.run(cmd, shell=True, capture_output=True, text=True, **kw)


def main():
    wt, var = sys.argv[1], sys.argv[2]
    checks = ALL
    outdir, suffix = "_out", ""
    for a in sys.argv[3:]:
        if a.startswith("--checks"):
            checks = a.split("=", 1)[1].split(",")
        if a.startswith("--out="):
            outdir = a.split("=", 1)[1]
        if a.startswith("--suffix="):
            suffix = a.split("=", 1)[1]
    out = os.path.join(wt, outdir)
    # patches are applied in a worktree of our own (the agents may still be working in theirs)
    src_wt = wt
    wt = os.environ.get("SEED_WT", "/tmp/seedtest_wt")
    if not os.path.isdir(wt):
        sh("git -C /repo worktree add -q --detach %s main" % wt)  # scratch worktree: remove it when done (see seeded/README.md)
    sh("git -C %s checkout -q -- . ; git -C %s checkout -q --detach main" % (wt, wt))
    meta = json.load(open(os.path.join(out, var + "_meta.json")))
    pid = meta["property"]
    patch = os.path.join(out, var + ".diff")
    demo = os.path.join(out, var + "_demo.py")
    env = dict(os.environ, PYTHONPATH=wt)
    sh("git -C %s checkout -q -- ." % wt)
    r0 = subprocess.run(["/venv/bin/python", demo], env=env, capture_output=True, text=True, cwd=wt, timeout=600)
    ap = sh("git -C %s apply %s" % (wt, patch))
    if ap.returncode != 0:
        print("patch does not apply:", ap.stderr)
        return 3
    r1 = subprocess.run(["/venv/bin/python", demo], env=env, capture_output=True, text=True, cwd=wt, timeout=600)
    base = sh("%s/tools/run_baseline_wt.sh %s" % (VERIF, wt))
    confirmed = r0.returncode == 0 and r1.returncode == 1 and "79/79" in base.stdout
    print("%s-%s: demo pristine rc=%d, patched rc=%d, %s -> %s" % (pid, var, r0.returncode, r1.returncode, base.stdout.strip().splitlines()[0] if base.stdout.strip() else "no baseline output", "CONFIRMED" if confirmed else "NOT CONFIRMED"))
    results = {}
    if confirmed:
        os.makedirs(os.path.join(VERIF, "out", "seedtest", "evidence"), exist_ok=True)
        e = dict(os.environ, HGMON_REPO=wt, HGMON_EVIDENCE_DIR=os.path.join(VERIF, "out", "seedtest", "evidence"))

        def run(c, tier):
            r = subprocess.run([os.path.join(VERIF, "check"), c, tier], env=e, capture_output=True, text=True, cwd=VERIF)
            lines = r.stdout.splitlines()
            first = ""
            for j, ln in enumerate(lines):
                if ln.startswith("VIOLATION"):
                    first = lines[j + 1].strip()[:240] if j + 1 < len(lines) else ""
                    break
            inc = [ln for ln in lines if ln.startswith("INCONCLUSIVE")]
            return {"rc": r.returncode, "violations": sum(1 for ln in lines if ln.startswith("VIOLATION")), "first": first, "inconclusive": inc[:2], "summary": lines[-1] if lines else ""}

        for c in checks:
            results[c + ":quick"] = run(c, "quick")
            print("   %s quick rc=%d %s" % (c, results[c + ":quick"]["rc"], results[c + ":quick"]["first"][:160]))
        if results.get(pid + ":quick", {}).get("rc") != 1 and not os.environ.get("SEED_NO_THOROUGH"):
            results[pid + ":thorough"] = run(pid, "thorough")
            print("   %s thorough rc=%d %s" % (pid, results[pid + ":thorough"]["rc"], results[pid + ":thorough"]["first"][:160]))
    sh("git -C %s checkout -q -- ." % wt)
    if confirmed:
        dest = os.path.join(VERIF, "seeded", "%s-%s%s" % (pid, var, suffix))
        os.makedirs(dest, exist_ok=True)
        shutil.copy(patch, os.path.join(dest, "patch.diff"))
        shutil.copy(demo, os.path.join(dest, "demo.py"))
        old = {}
        if os.path.exists(os.path.join(dest, "meta.json")):
            try:
                old = json.load(open(os.path.join(dest, "meta.json"))).get("checks", {})
            except Exception:
                old = {}
        old.update(results)
        results = old
        caught = sorted(k for k, v in results.items() if v["rc"] == 1)
        meta.update(
            {
                "breaks": pid,
                "origin": "sub-agent given only the text of the property and a scratch worktree",
                "confirmed": {"demo_exit_pristine": r0.returncode, "demo_exit_patched": r1.returncode, "baseline_with_patch": base.stdout.strip().splitlines()[0]},
                "ran": "tools/seed_process.py: demo on pristine and patched worktree, %s/tools/run_baseline_wt.sh (79 baseline tests), then ./check <id> quick for every property with HGMON_REPO=<patched worktree>",
                "checks": results,
                "caught_by": caught,
                "caught_by_own_check": any(k.startswith(pid + ":") for k in caught),
            }
        )
        json.dump(meta, open(os.path.join(dest, "meta.json"), "w"), indent=1)
        print("   kept as", dest, "| caught by:", ", ".join(caught) or "NOTHING")
    return 0


if __name__ == "__main__":
    sys.exit(main())
