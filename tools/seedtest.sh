#!/bin/bash
# tools/seedtest.sh <worktree> <patch.diff> <tier> <check id>...
# Apply a seeded breakage to a scratch worktree of the repository (never to /repo), run the given checks
# against it (HGMON_REPO), print one line per check, undo the patch.  Evidence and replays of these runs go
# to out/seedtest/ so that the committed evidence of the unchanged tree is not overwritten.
W=$1; P=$2; TIER=$3; shift 3
cd "$(dirname "$0")/.."
git -C "$W" checkout -q -- . 2>/dev/null
git -C "$W" apply "$P" || { echo "PATCH DOES NOT APPLY: $P"; exit 3; }
mkdir -p out/seedtest/evidence
for c in "$@"; do
  HGMON_REPO="$W" HGMON_EVIDENCE_DIR="$PWD/out/seedtest/evidence" ./check "$c" "$TIER" > "out/seedtest/$c.out" 2>&1
  rc=$?
  echo "$c $TIER rc=$rc $(grep -c '^VIOLATION' out/seedtest/$c.out) violation lines; $(grep -m1 -A1 '^VIOLATION' out/seedtest/$c.out | tail -1 | cut -c1-220)"
done
git -C "$W" checkout -q -- .
