#!/usr/bin/env python3
"""For every `fix:` commit of /repo: revert it alone in a scratch worktree (never in /repo) and run the quick
tier of the check of the property it was found by.  Confirms that each repaired defect is (still) detected.
Output: one line per commit, and seeded/REVERTS.md."""
import json, os, subprocess, sys
VERIF = os.path.dirname(os.path.dirname(os.path.abspath(__file__)))
WT = "/tmp/revert_wt"
def sh(c): return subprocess.run(c, shell=True, capture_output=True, text=True)
if not os.path.isdir(WT):
    sh("git -C /repo worktree add -q --detach %s main" % WT)
kf = json.load(open(os.path.join(VERIF, "known_findings.json")))["findings"]
prop = {}
for f in kf:
    if f.get("status") == "fixed":
        prop.setdefault(f["commit"], []).append(f["property"])
log = sh("git -C /repo log --format='%h %s' --reverse").stdout.splitlines()
rows = []
for ln in log:
    h, msg = ln.split(" ", 1)
    if not msg.startswith("fix:"):
        continue
    props = prop.get(h) or []
    sh("git -C %s checkout -q -- . ; git -C %s checkout -q --detach main" % (WT, WT))
    r = sh("git -C %s revert --no-commit %s" % (WT, h))
    if r.returncode != 0:
        sh("git -C %s revert --abort; git -C %s reset -q --hard main" % (WT, WT))
        rows.append((h, msg, ",".join(props), "revert conflicts with later fixes", ""))
        print(h, "CONFLICT", msg[:70]); continue
    res = []
    for p in props or ["?"]:
        if p == "?":
            continue
        e = dict(os.environ, HGMON_REPO=WT, HGMON_EVIDENCE_DIR=os.path.join(VERIF, "out", "seedtest", "evidence"))
        c = subprocess.run([os.path.join(VERIF, "check"), p, "quick"], env=e, capture_output=True, text=True, cwd=VERIF)
        first = ""
        lines = c.stdout.splitlines()
        for j, l2 in enumerate(lines):
            if l2.startswith("VIOLATION") and j + 1 < len(lines):
                first = lines[j + 1].strip()[:140]; break
        res.append("%s rc=%d" % (p, c.returncode))
        print(h, p, "rc=%d" % c.returncode, first[:100])
    sh("git -C %s reset -q --hard main" % WT)
    rows.append((h, msg, ",".join(props), "; ".join(res), first))
with open(os.path.join(VERIF, "seeded", "REVERTS.md"), "w") as f:
    f.write("# Reverting each `fix:` commit alone (scratch worktree) and running the quick tier of the check that found it\n\n| commit | fix | property | result | first violation |\n|---|---|---|---|---|\n")
    for r in rows:
        f.write("| %s | %s | %s | %s | %s |\n" % (r[0], r[1].replace("|", "/")[:90], r[2], r[3], r[4].replace("|", "/")))
