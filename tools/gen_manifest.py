#!/usr/bin/env python3
"""Regenerate MANIFEST.json from the check modules (levels, techniques) and the not-yet-claimed list."""
import importlib, json, os, sys
sys.path.insert(0, os.path.dirname(os.path.dirname(os.path.abspath(__file__))))
os.environ.setdefault("HGMON_REPO", "/repo")
ALL = ["C%02d" % i for i in range(1, 18)]
NOTES = json.load(open(os.path.join(os.path.dirname(__file__), "manifest_notes.json")))
checks, na = [], []
for pid in ALL:
    path = os.path.join(os.path.dirname(__file__), "..", "hgmon", "checks", pid.lower() + ".py")
    if not os.path.exists(path):
        na.append({"property_id": pid, "reason": NOTES.get("not_applicable", {}).get(pid, "check not built yet in this round (runtime monitor planned in DESIGN.md section 3)")})
        continue
    m = importlib.import_module("hgmon.checks." + pid.lower())
    checks.append({
        "property_id": pid,
        "quick_cmd": "./check %s quick" % pid,
        "thorough_cmd": "./check %s thorough" % pid,
        "evidence_file": "evidence/%s.json" % pid,
        "replay_cmd_template": "./check %s --replay {path}" % pid,
        "engine": "hgmon",
        "level_claimed": {"category": m.LEVEL, "text": NOTES["level_text"].get(pid, m.__doc__.strip().split("\n\n")[0]), "design_ref": "DESIGN.md section 3, " + pid},
        "level_note": "; ".join(getattr(m, "ASSUMPTIONS", [])),
        "technique": m.TECHNIQUE,
    })
man = {
    "version": 1,
    "setup_cmd": "./setup.sh",
    "hooks": {
        "guard": "HISTOGRAMMAR_PYTHON_VERIF",
        "enable": "no source hooks: all instrumentation (fill wrappers, sys.monitoring reach coverage, read-only input arrays, fault-injecting quantities) is attached at run time from the harness process by hgmon.probes; checks import histogrammar from /repo's working tree (HGMON_REPO overrides)",
        "baseline_off_cmd": "./tools/baseline.sh",
        "source_commits": [],
        "add_only": True,
    },
    "engines": [{"name": "hgmon", "path": "hgmon", "serves_properties": [c["property_id"] for c in checks], "kind_free_text": "runtime monitors: reference-model / differential oracles over seeded workloads, call-trace probes, frame snapshots, fault injection, reach coverage"}],
    "checks": checks,
    "not_applicable": na,
    "notes": NOTES.get("notes", ""),
}
json.dump(man, open(os.path.join(os.path.dirname(__file__), "..", "MANIFEST.json"), "w"), indent=1)
print("checks:", [c["property_id"] for c in checks], "not claimed:", [n["property_id"] for n in na])
