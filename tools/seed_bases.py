#!/usr/bin/env python3
"""For every kept seed: the newest commit of /repo its patch.diff applies to (HEAD for most; an older one where a later
fix: commit rewrote the same lines).  Written into meta.json as "applies_to" so that a reader can reproduce the run
(`git worktree add --detach <dir> <commit>; git -C <dir> apply patch.diff`).  Uses a scratch worktree, never /repo."""
import glob, json, os, subprocess
VERIF = os.path.dirname(os.path.dirname(os.path.abspath(__file__)))
WT = os.environ.get("SEED_WT", "/tmp/seedtest_wt")
def sh(c): return subprocess.run(c, shell=True, capture_output=True, text=True)
if not os.path.isdir(WT):
    sh("git -C /repo worktree add -q --detach %s main" % WT)  # scratch worktree: remove it when done
commits = sh("git -C /repo log --format=%h").stdout.split()
head = commits[0]
n_head = 0
for d in sorted(glob.glob(os.path.join(VERIF, "seeded", "C??-*"))):
    patch = os.path.join(d, "patch.diff")
    mp = os.path.join(d, "meta.json")
    if not os.path.exists(patch):
        continue
    found = None
    for c in commits:
        sh("git -C %s checkout -q -- . ; git -C %s checkout -q --detach %s" % (WT, WT, c))
        if sh("git -C %s apply --check %s" % (WT, patch)).returncode == 0:
            found = c
            break
    m = json.load(open(mp))
    m["applies_to"] = found
    m["applies_to_head"] = found == head
    json.dump(m, open(mp, "w"), indent=1)
    n_head += found == head
    if found != head:
        print(os.path.basename(d), "->", found)
sh("git -C %s checkout -q -- . ; git -C %s checkout -q --detach main" % (WT, WT))
print("applies to HEAD (%s): %d" % (head, n_head))
