#!/bin/bash
# usage: /tmp/run_baseline.sh <worktree>   -- runs the repository's test-suite in that worktree and reports whether
# all 79 baseline tests (listed in /verif/tools/baseline_tests.txt) still pass.
W=$1
cd "$W" && PYTHONPATH="$W" /venv/bin/python -m pytest -q -p no:cacheprovider --timeout=900 --continue-on-collection-errors --junitxml="$W/_junit.xml" > "$W/_pytest.log" 2>&1
python3 - "$W/_junit.xml" <<'PY'
import sys, xml.etree.ElementTree as ET
want=set(open('/verif/tools/baseline_tests.txt').read().split())
got=set()
for tc in ET.parse(sys.argv[1]).getroot().iter('testcase'):
    if not any(c.tag in ('failure','error','skipped') for c in tc):
        got.add(f"{tc.get('classname')}::{tc.get('name')}")
miss=sorted(want-got)
print(f"baseline: {len(want&got)}/{len(want)} passed")
for m in miss: print("BROKEN", m)
sys.exit(1 if miss else 0)
PY
