#!/usr/bin/env python3
"""Generate seeded/README.md from the meta.json files of the kept seeded breakages."""
import glob, json, os
root = os.path.join(os.path.dirname(os.path.dirname(os.path.abspath(__file__))), "seeded")
rows = []
for mp in sorted(glob.glob(os.path.join(root, "*", "meta.json"))):
    m = json.load(open(mp))
    name = os.path.basename(os.path.dirname(mp))
    own = m.get("breaks") or m.get("property")
    caught = m.get("caught_by", [])
    own_hit = [c for c in caught if c.startswith(own + ":")]
    others = sorted({c.split(":")[0] for c in caught if not c.startswith(own + ":")})
    base = "" if m.get("applies_to_head", True) else " (patch applies to %s; a later fix: commit rewrote the same lines)" % m.get("applies_to")
    if m.get("manifests_at_head") is False:
        base += " (no longer observable on HEAD: fix 05bcbfd - library singletons pickled by reference - removed the difference between a pickle clone and its original that this change needed; run it on eb1a7a5)"
    own_txt = ", ".join(own_hit) or ("not by %s - the change breaks a neighbouring property (DESIGN 7.2): caught by %s" % (own, ", ".join(c for c in caught)) if others else "**missed**")
    rows.append((name, own, m.get("summary", "").replace("|", "/") + base, m.get("needs", "").replace("|", "/"), own_txt, ", ".join(others) or "-", m.get("note", "")))
with open(os.path.join(root, "README.md"), "w") as f:
    f.write("# Seeded breakages\n\nEach directory holds `patch.diff` (apply to a scratch worktree of the repository, never to /repo), `demo.py` (exits 0 on the\npristine tree, 1 with the patch) and `meta.json` (what it breaks, what it needs to manifest, what was run, which checks fired).\nAll were written by sub-agents that saw only the text of one property and their own scratch worktree; each was confirmed by\n`tools/seed_process.py` (demo both ways, baseline suite 79/79 with the patch) before being kept.\n\n")
    f.write("| seed | property | change | needs | own check | also caught by |\n|---|---|---|---|---|---|\n")
    for r in rows:
        f.write("| %s | %s | %s | %s | %s | %s |\n" % r[:6])
    f.write("\n%d seeds; %d caught by the check of the property they break.\n" % (len(rows), sum(1 for r in rows if "missed" not in r[4] and not r[4].startswith("not by"))))
print(open(os.path.join(root, "README.md")).read()[-1500:])
