#!/usr/bin/env python3
"""Triage helper: run cases [lo,hi) of a check in-process and group failures by normalised message."""
import collections, os, re, sys
sys.path.insert(0, os.path.dirname(os.path.dirname(os.path.abspath(__file__))))
from hgmon import env, runner
pid, tier, lo, hi = sys.argv[1].upper(), sys.argv[2], int(sys.argv[3]), int(sys.argv[4])
check = runner.load_check(pid); env.hg()
if hasattr(check, "setup"): check.setup(tier)
groups = collections.OrderedDict()
for i in range(lo, hi):
    res = runner.run_one(check, env.seed(), tier, i)
    if "harness_error" in res:
        key = "HARNESS " + res["harness_error"].strip().splitlines()[-1]
        groups.setdefault(key, []).append((i, res["harness_error"]))
        continue
    for f in res.get("failures") or []:
        m = re.sub(r"-?\d+(\.\d+)?(e[-+]?\d+)?", "N", f["msg"])[:150]
        groups.setdefault((f.get("key"), m), []).append((i, f))
for k, v in sorted(groups.items(), key=lambda kv: -len(kv[1])):
    print(len(v), k)
    i, f = v[0]
    if isinstance(f, str): print("    ", f[-1500:])
    else:
        w = f.get("witness", {})
        print("     case", i, "|", f["msg"][:300])
        print("     tree:", w.get("tree"))
        for kk in ("rows", "stream", "weights_mode", "representation", "split", "traceback"):
            if kk in w: print("     %s: %s" % (kk, str(w[kk])[:600]))
