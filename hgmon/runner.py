"""Check runner: seeded case ranges, sharding over subprocesses, aggregation, verdicts
(held / violated / inconclusive), known findings, replay files, evidence.
"""

import collections
import importlib
import json
import os
import random
import subprocess
import sys
import time
import traceback

from . import env, reach
from .spec import jsonable

CHECK_IDS = ["C%02d" % i for i in range(1, 18)]
MAX_KEPT_FAILURES = 40
NPROC = int(os.environ.get("HGMON_NPROC", "16"))


def load_check(pid):
    return importlib.import_module("hgmon.checks.%s" % pid.lower())


def case_rng(seed, pid, tier, i):
    return random.Random("%d:%s:%s:%d" % (seed, pid, tier, i))


class Agg:
    def __init__(self):
        self.evaluations = 0
        self.digests = set()
        self.counters = collections.Counter()
        self.sets = collections.defaultdict(set)
        self.failures = []
        self.n_failures = 0
        self.fail_keys = collections.Counter()
        self.samples = []
        self.harness_errors = []
        self.reach = {"funcs": [], "lines": {}}

    def add_case(self, i, res):
        self.evaluations += int(res.get("evaluations", 1))
        if res.get("nontrivial") and res.get("digest"):
            self.digests.add(res["digest"])
        for dg in res.get("digests") or ():
            self.digests.add(dg)
        for k, v in (res.get("counters") or {}).items():
            self.counters[k] += v
        for k, v in (res.get("sets") or {}).items():
            self.sets[k].update(v)
        for f in res.get("failures") or []:
            self.n_failures += 1
            self.fail_keys[f.get("key") or "<unlisted>"] += 1
            f = dict(f, index=i)
            # keep at least one example per key, and the first few overall
            n_same = sum(1 for g in self.failures if g.get("key") == f.get("key"))
            if n_same < 3 and len(self.failures) < MAX_KEPT_FAILURES:
                self.failures.append(f)
        if res.get("sample") is not None and len(self.samples) < 3 and res.get("nontrivial"):
            self.samples.append(res["sample"])

    def export(self):
        return {
            "evaluations": self.evaluations,
            "digests": sorted(self.digests),
            "counters": dict(self.counters),
            "sets": {k: sorted(v) for k, v in self.sets.items()},
            "failures": self.failures,
            "n_failures": self.n_failures,
            "fail_keys": dict(self.fail_keys),
            "samples": self.samples,
            "harness_errors": self.harness_errors,
            "reach": self.reach,
        }

    def merge(self, d):
        self.evaluations += d["evaluations"]
        self.digests.update(d["digests"])
        self.counters.update(d["counters"])
        for k, v in d["sets"].items():
            self.sets[k].update(v)
        for f in d["failures"]:
            n_same = sum(1 for g in self.failures if g.get("key") == f.get("key"))
            if n_same < 3 and len(self.failures) < MAX_KEPT_FAILURES:
                self.failures.append(f)
        self.n_failures += d["n_failures"]
        self.fail_keys.update(d["fail_keys"])
        for s in d["samples"]:
            if len(self.samples) < 3:
                self.samples.append(s)
        self.harness_errors.extend(d["harness_errors"])


def _from_library(tb):
    """Was the exception raised while a frame of the repository under test was active?"""
    prefix = os.path.join(env.REPO, "histogrammar")
    for fs in traceback.extract_tb(tb):
        if fs.filename.startswith(prefix):
            return True
    return False


def run_one(check, seed, tier, i):
    rng = case_rng(seed, check.ID, tier, i)
    try:
        return check.run_case(i, rng, tier)
    except env.Inconclusive:
        raise
    except Exception as e:  # noqa: BLE001
        tb = traceback.format_exc()
        if _from_library(e.__traceback__):
            return {
                "failures": [
                    {
                        "key": None,
                        "msg": "unexpected exception from the library: %s: %s" % (type(e).__name__, str(e)[:300]),
                        "witness": {"traceback": tb[-3000:]},
                    }
                ],
                "counters": {"unexpected_library_exception": 1},
            }
        return {"harness_error": tb[-3000:]}


class CaseTimeout(BaseException):
    """A single case exceeded its wall-clock budget (BaseException: not swallowed by the checks)."""


CASE_TIMEOUT = int(os.environ.get("HGMON_CASE_TIMEOUT", "180"))


def _alarm(signum, frame):
    raise CaseTimeout()


def run_range(pid, seed, tier, lo, hi, with_reach=True, deadline=None):
    check = load_check(pid)
    env.hg()
    agg = Agg()
    r = reach.Reach()
    if with_reach:
        r.start()
    if hasattr(check, "setup"):
        check.setup(tier)
    try:
        for i in range(lo, hi):
            if deadline is not None and time.time() > deadline:
                agg.counters["cases_skipped_deadline"] += hi - i
                break
            import signal

            signal.signal(signal.SIGALRM, _alarm)
            signal.alarm(CASE_TIMEOUT)
            try:
                res = run_one(check, seed, tier, i)
            except CaseTimeout:
                # a watchdog, not a verdict: counted and reported as inconclusive
                agg.evaluations += 1
                agg.counters["case_timeouts"] += 1
                agg.sets["case_timeout_indexes"].add(str(i))
                continue
            finally:
                signal.alarm(0)
            if "harness_error" in res:
                agg.evaluations += 1
                if len(agg.harness_errors) < 5:
                    agg.harness_errors.append({"index": i, "traceback": res["harness_error"]})
                agg.counters["harness_errors"] += 1
                continue
            agg.add_case(i, res)
    finally:
        r.stop()
    agg.reach = r.export()
    return agg


def shard_main(argv):
    pid, tier, lo, hi, out = argv[0], argv[1], int(argv[2]), int(argv[3]), argv[4]
    budget = float(argv[5]) if len(argv) > 5 else None
    deadline = time.time() + budget if budget else None
    try:
        agg = run_range(pid, env.seed(), tier, lo, hi, deadline=deadline)
        d = agg.export()
    except env.Inconclusive as e:
        d = Agg().export()
        d["inconclusive"] = str(e)
    with open(out, "w") as f:
        json.dump(jsonable(d), f)
    return 0


def known_findings():
    try:
        with open(env.KNOWN_FINDINGS) as f:
            return json.load(f).get("findings", [])
    except FileNotFoundError:
        return []


def write_replay(pid, seed, tier, f):
    env.ensure_dirs()
    name = "%s-%s-%d-%s.json" % (pid, tier, f.get("index", 0), abs(hash(json.dumps(jsonable(f), sort_keys=True, default=repr))) % 10**8)
    path = os.path.join(env.REPLAY_DIR, name)
    with open(path, "w") as fh:
        json.dump(
            {"property": pid, "seed": seed, "tier": tier, "index": f.get("index"), "key": f.get("key"), "msg": f.get("msg"), "witness": jsonable(f.get("witness"))},
            fh,
            indent=1,
            default=repr,
        )
    return path


def check_main(pid, tier, nproc=None):
    t0 = time.time()
    env.ensure_dirs()
    seed = env.seed()
    check = load_check(pid)
    n = check.plan(tier)
    nproc = nproc or NPROC
    nproc = max(1, min(nproc, n))
    budget = check.budget(tier) if hasattr(check, "budget") else (90 if tier == "quick" else 900)
    agg = Agg()
    inconclusive = []
    parts = []
    procs = []
    step = (n + nproc - 1) // nproc
    # interleave: shard k takes indices [k*step, (k+1)*step)
    for k in range(nproc):
        lo, hi = k * step, min(n, (k + 1) * step)
        if lo >= hi:
            continue
        out = os.path.join(env.TMP, "shard-%s-%s-%d-%d.json" % (pid, tier, os.getpid(), k))
        cmd = [sys.executable, "-m", "hgmon", "shard", pid, tier, str(lo), str(hi), out, str(budget)]
        e = dict(os.environ, PYTHONHASHSEED="0", PYTHONPATH=env.VERIF, VERIF_SEED=str(seed))
        procs.append((k, out, subprocess.Popen(cmd, cwd=env.VERIF, env=e, stdout=subprocess.PIPE, stderr=subprocess.STDOUT)))
    for k, out, p in procs:
        try:
            so, _ = p.communicate(timeout=budget * 2 + 120)
        except subprocess.TimeoutExpired:
            p.kill()
            so, _ = p.communicate()
            inconclusive.append("shard %d timed out (watchdog)" % k)
            continue
        if p.returncode != 0 or not os.path.exists(out):
            inconclusive.append("shard %d failed: rc=%s %s" % (k, p.returncode, (so or b"").decode(errors="replace")[-800:]))
            continue
        with open(out) as f:
            d = json.load(f)
        os.remove(out)
        if d.get("inconclusive"):
            inconclusive.append(d["inconclusive"])
        agg.merge(d)
        parts.append(d["reach"])
    funcs, lines = reach.merge(parts)
    return finish(check, pid, tier, seed, agg, funcs, lines, inconclusive, t0)


def finish(check, pid, tier, seed, agg, funcs, lines, inconclusive, t0):
    kf = [k for k in known_findings() if k.get("property") == pid]
    known = {k["key"]: k for k in kf if k.get("status") == "known"}
    required = list(getattr(check, "REQUIRED", []))
    miss = reach.missing(required, funcs)
    if miss:
        inconclusive.append("anchored functions never reached: %s" % ", ".join(miss[:10]))
    if agg.harness_errors:
        inconclusive.append("%d harness errors (first: %s)" % (agg.counters["harness_errors"], agg.harness_errors[0]["traceback"].strip().splitlines()[-1]))
    if agg.counters.get("case_timeouts"):
        inconclusive.append("%d cases hit the per-case watchdog (%ds): %s" % (agg.counters["case_timeouts"], CASE_TIMEOUT, ", ".join(sorted(agg.sets.get("case_timeout_indexes", ()))[:8])))
    if agg.counters.get("cases_skipped_deadline"):
        # not a verdict: report what was covered; only inconclusive when almost nothing ran
        pass
    if hasattr(check, "conclusive"):
        inconclusive.extend(check.conclusive(agg) or [])
    floor = getattr(check, "FLOOR", 20)
    if len(agg.digests) < floor:
        inconclusive.append("only %d distinct non-trivial cases (< %d)" % (len(agg.digests), floor))

    listed = collections.OrderedDict()
    unlisted = []
    for f in agg.failures:
        if f.get("key") in known:
            listed.setdefault(f["key"], f)
        else:
            unlisted.append(f)
    n_unlisted = sum(v for k, v in agg.fail_keys.items() if k not in known)

    for key, f in listed.items():
        print("KNOWN-FINDING: property=%s %s [%s] (%d cases this run)" % (pid, known[key].get("what", key), key, agg.fail_keys.get(key, 0)))
    replays = []
    seen_keys = set()
    for f in unlisted:
        kk = (f.get("key"), f.get("msg", "")[:60])
        if kk in seen_keys and len(replays) >= 3:
            continue
        seen_keys.add(kk)
        path = write_replay(pid, seed, tier, f)
        replays.append(path)
        print("VIOLATION property=%s replay=%s" % (pid, path))
        print("  case %s: %s" % (f.get("index"), (f.get("msg") or "")[:400]))
        if len(replays) >= 8:
            break

    rfuncs = [r for r in required if r in funcs]
    coverage = {
        "evaluations": agg.evaluations,
        "distinct_nontrivial": len(agg.digests),
        "rule": getattr(check, "RULE", ""),
        "samples": agg.samples[:3] or [{"note": "no non-trivial case produced"}],
        "counters": dict(sorted(agg.counters.items())),
        "observed_sets": {k: {"n": len(v), "examples": sorted(v)[:25]} for k, v in sorted(agg.sets.items())},
        "reach": {
            "required_functions": len(required),
            "required_reached": len(rfuncs),
            "missing": miss,
            "library_functions_executed": len(funcs),
            "library_lines_executed": {f: len(v) for f, v in sorted(lines.items())},
        },
        "failures_by_key": dict(agg.fail_keys),
        "known_findings_met": sorted(listed),
        "verdict": "violated" if n_unlisted else ("inconclusive" if inconclusive else "held on what was observed"),
        "inconclusive_reasons": inconclusive,
        "exhaustive": False,
    }
    ev = {
        "property_id": pid,
        "tier": tier,
        "seed": seed,
        "level": check.LEVEL,
        "coverage": coverage,
        "assumptions": list(getattr(check, "ASSUMPTIONS", [])),
        "wall_s": round(time.time() - t0, 2),
        "violations": n_unlisted,
    }
    with open(os.path.join(env.EVIDENCE, "%s.json" % pid), "w") as f:
        json.dump(jsonable(ev), f, indent=1, default=repr)
    print(
        "%s %s seed=%d: %d cases, %d distinct non-trivial, %d failures (%d unlisted), %.1fs"
        % (pid, tier, seed, agg.evaluations, len(agg.digests), agg.n_failures, n_unlisted, time.time() - t0)
    )
    if n_unlisted:
        return 1
    if inconclusive:
        for r in inconclusive:
            print("INCONCLUSIVE property=%s %s" % (pid, r))
        return 2
    return 0


def replay_main(pid, path):
    with open(path) as f:
        rp = json.load(f)
    check = load_check(pid)
    env.hg()
    os.environ["VERIF_SEED"] = str(rp["seed"])
    if hasattr(check, "setup"):
        check.setup(rp["tier"])
    res = run_one(check, rp["seed"], rp["tier"], rp["index"])
    if "harness_error" in res:
        print("INCONCLUSIVE property=%s harness error on replay:\n%s" % (pid, res["harness_error"]))
        return 2
    known = {k["key"] for k in known_findings() if k.get("property") == pid and k.get("status") == "known"}
    fails = res.get("failures") or []
    bad = [f for f in fails if f.get("key") not in known]
    for f in fails:
        print("%s key=%s %s" % ("KNOWN-FINDING:" if f.get("key") in known else "FAIL", f.get("key"), f.get("msg")))
        print(json.dumps(jsonable(f.get("witness")), indent=1, default=repr)[:4000])
    if bad:
        print("VIOLATION property=%s replay=%s" % (pid, path))
        return 1
    print("replay of %s case %s: no violation" % (pid, rp["index"]))
    return 0


def main(argv):
    if not argv:
        print("usage: hgmon check <id> quick|thorough | hgmon check <id> --replay <path> | hgmon shard ...")
        return 2
    if argv[0] == "shard":
        return shard_main(argv[1:])
    if argv[0] == "check":
        pid = argv[1].upper()
        if len(argv) >= 4 and argv[2] == "--replay":
            return replay_main(pid, argv[3])
        tier = argv[2] if len(argv) > 2 else os.environ.get("VERIF_TIER", "quick")
        if tier not in ("quick", "thorough"):
            tier = "quick"
        try:
            return check_main(pid, tier)
        except env.Inconclusive as e:
            print("INCONCLUSIVE property=%s %s" % (pid, e))
            return 2
    print("unknown command", argv[0])
    return 2
