"""Shared helpers for the property checks."""

import random

from .. import env, observe as O, probes, spec as S

_tables = {}


def table(opts_key, o):
    """Stratified (container x position x child kind) table + leaf roots, deterministic per seed."""
    key = (env.seed(), opts_key)
    if key not in _tables:
        rng = random.Random("table:%d:%s" % key)
        _tables[key] = S.stratified_specs(rng, o) + S.leaf_root_specs(rng, o)
    return _tables[key]


def pick_spec(i, rng, tier, o=None, opts_key="default", table_stride=1):
    """Case i: first the stratified tables, then random trees (depth <= 3 quick, <= 4 thorough)."""
    o = dict(o or {})
    t = table(opts_key, o)
    if i < len(t) * table_stride and i % table_stride == 0:
        label, sp = t[i // table_stride]
        return label, sp
    depth = rng.choice((1, 2, 2, 3)) if tier == "quick" else rng.choice((1, 2, 3, 3, 4))
    o.setdefault("budget", 150)
    return "random", S.gen_spec(rng, depth, o)


def table_size(opts_key="default", o=None):
    return len(table(opts_key, dict(o or {})))


def fail(key, msg, **witness):
    return {"key": key, "msg": msg, "witness": witness}


def stream_json(stream):
    return [[S.jsonable(r), S.jsonable(w)] for r, w in stream]


def case_sample(label, sp, stream, **extra):
    d = {"stratum": label, "tree": S.describe(sp), "stream": stream_json(stream)[:6], "stream_len": len(stream)}
    d.update(extra)
    return d


def fill_all(h, stream):
    for r, w in stream:
        h.fill(r, w)
    return h


def setup_probes():
    env.hg()
    probes.install()


def fmt_diff(d, n=3):
    return "; ".join("%s: %r vs %r" % (p, a, b) for p, a, b in d[:n])


def nontrivial(sp, stream):
    """A case is non-trivial when the tree has a quantity-bearing node and >=1 record carries
    positive weight."""
    return S.has_quantity(sp) and any(isinstance(w, (int, float)) and w > 0 for _, w in stream)


def digest(*parts):
    return O.digest([S.jsonable(p) for p in parts])


# ----------------------------------------------------------------------------------------------
# states reached through the alternative constructors (Stack.build / Fraction.build)


def built_state(sp, streams, kind):
    """An aggregator assembled from already-filled trees of one spec, the way the library's own alternative
    constructors do it: Stack.build(h1, h2, ...) (cumulative sums, NaN thresholds) or
    Fraction.build(numerator, denominator).  The result is an immutable container around live children."""
    hg = env.hg()
    parts = [fill_all(S.build(sp), st) for st in streams]
    if kind == "stack":
        return hg.Stack.build(*parts)
    if len(parts) < 2:
        parts.append(S.build(sp))
    return hg.Fraction.build(parts[0], parts[0] + parts[1])


ED_KINDS = ("Bin", "CentrallyBin", "IrregularlyBin", "Stack", "Index", "Branch")


def ed_variant(h, seq):
    """The state of h (a filled Bin / CentrallyBin / IrregularlyBin / Stack / Index / Branch) built again with the public
    "past tense" constructor ed() from copies of its parts, the sequences handed over as `seq` (tuple or list; pairs
    as tuples or lists likewise) - every one of them a form the constructors' own type checks accept."""
    hg = env.hg()
    k = probes.base_kind(h)
    cp = lambda x: x.copy()  # noqa: E731
    if k == "Bin":
        return hg.Bin.ed(h.low, h.high, h.entries, seq(cp(v) for v in h.values), cp(h.underflow), cp(h.overflow), cp(h.nanflow))
    if k in ("CentrallyBin", "IrregularlyBin", "Stack"):
        return getattr(hg, k).ed(h.entries, seq(seq((c, cp(v))) for c, v in h.bins), cp(h.nanflow))
    if k in ("Index", "Branch"):
        return getattr(hg, k).ed(h.entries, *[cp(v) for v in h.values])
    raise ValueError(k)
