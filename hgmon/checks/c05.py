"""C05 - bookkeeping invariants: every datum lands in exactly one bin, totals conserve.

Two monitors.  (1) Histories: a pool of aggregators driven through fills, vectorised fills, merges,
in-place merges, scalings, copies, JSON and pickle round trips; after every operation the invariant
walker checks the whole tree at the API boundary (a quiescent point) and the ghost multiset gives
the total weight each root was given.  (2) Configuration sweep: for random (num, low, high),
(binWidth, origin), centres and edges - non-dyadic widths, large offsets, num up to 60 - every edge
+-0..3 ulp, NaN, +-inf is filled by fill (under the fan-out probe) and by fill.numpy (fast and
generic path); no exception, exactly one bin/flow grows by the weight, totals conserve.
"""

import math

import numpy as np

from .. import batch as B, history as H, observe as O, probes, spec as S
from . import common as C

ID = "C05"
LEVEL = "exploration"
TECHNIQUE = "invariant walker at the API boundary after every operation of random histories + fan-out probe over an edge-adjacent configuration sweep"
RULE = (
    "even case index: history = pool of 3..5 trees (stratified table then random), 10..40 operations from {fill, fill.numpy, +, +=, "
    "*f, f*, zero, copy, JSON reload, pickle clone}; odd case index: configuration sweep = one random binning configuration "
    "(Bin num 1..60 x width {0.1,0.3,1/3,0.7,...} x offset {0,-0.3,1e6+0.1,1e15,...}; SparselyBin; CentrallyBin; IrregularlyBin) "
    "probed at every edge +-0..3 ulp, NaN, +-inf by fill and by fill.numpy. distinct = digest(spec, operation log) or "
    "digest(configuration); non-trivial = >=1 invariant evaluated on a state with positive entries"
    ' Scalar fills in histories are re-typed value-preservingly 30% of the time; the accessor invariant (Branch.iN / h(key) / children vs values) is checked with every ghost check.'
)
ASSUMPTIONS = [
    "sum invariants compared with relative tolerance 1e-9 (the property says up to floating-point rounding); weights are dyadic so they are in fact exact",
    "a node whose child is a Count with a non-identity transform is exempt from the sum that involves that child (transformed weights by design)",
    "vectorised fills in histories avoid the C03 known findings (array weights; NaN not routed to Sum nodes)",
]
FLOOR = 200

REQUIRED = [
    "primitives.bin:Bin.fill",
    "primitives.bin:Bin._numpy",
    "primitives.bin:Bin.__iadd__",
    "primitives.bin:Bin.__mul__",
    "primitives.sparselybin:SparselyBin.fill",
    "primitives.sparselybin:SparselyBin._numpy",
    "primitives.centrallybin:CentrallyBin.fill",
    "primitives.centrallybin:CentrallyBin._numpy",
    "primitives.irregularlybin:IrregularlyBin.fill",
    "primitives.irregularlybin:IrregularlyBin._numpy",
    "primitives.categorize:Categorize.fill",
    "primitives.categorize:Categorize._numpy",
    "primitives.stack:Stack.fill",
    "primitives.fraction:Fraction.fill",
    "primitives.bag:Bag._update",
    "primitives.collection:Label.fill",
    "primitives.collection:UntypedLabel.fill",
    "primitives.collection:Index.fill",
    "primitives.collection:Branch.fill",
    "defs:Container.__getstate__",
    "defs:Factory.fromJson",
]

PROFILE = {
    "ops": [("fill", 6), ("fillnp", 3), ("add", 2), ("iadd", 2), ("mul", 2), ("zero", 0.5), ("copy", 1), ("json", 1), ("pickle", 1), ("read", 0.5)],
    "invariants": True,
    "frame": False,
    "perturb": True,
    "perturb_n": 2,
    "retype": True,
}

WIDTHS = [0.1, 0.3, 1.0 / 3, 0.7, 0.5, 1.0, 2.5, 1e-3, 7.3, 0.2, 1e-9]
LOWS = [0.0, -1.0, 0.1, -0.3, 1e6 + 0.1, 1e15, -1e6 - 0.7, 1.0 / 3, -5.0, 1e-300, 123.456]


def plan(tier):
    return 6000 if tier == "quick" else 80000


def budget(tier):
    return 75 if tier == "quick" else 600


def setup(tier):
    C.setup_probes()


def run_case(i, rng, tier):
    if i % 2 == 0:
        return _history_case(i // 2, rng, tier)
    return _sweep_case(i // 2, rng, tier)


def _history_case(i, rng, tier):
    label, sp = C.pick_spec(i, rng, tier)
    n_ops = rng.randint(10, 25 if tier == "quick" else 40)
    h = H.run_history(sp, rng, PROFILE, n_ops, rng.randint(3, 5))
    sets = {"kinds": S.kinds_in(sp), "ops": {k for k in h.counters if k.startswith("op:")}}
    inv = sum(v for k, v in h.counters.items() if k.startswith("invariant:"))
    return {
        "digest": C.digest(sp, h.log),
        "nontrivial": inv > 0 and any(m.items for m in h.pool),
        "failures": h.failures,
        "counters": dict(h.counters, histories=1),
        "sets": sets,
        "sample": {"kind": "history", "stratum": label, "tree": S.describe(sp), "ops": h.log[:12], "n_ops": len(h.log)},
    }


def _gen_config(rng):
    kind = rng.choice(["Bin", "Bin", "SparselyBin", "CentrallyBin", "IrregularlyBin"])
    w = rng.choice(WIDTHS) * rng.choice([1, 1, 1, 3, 0.5])
    low = rng.choice(LOWS)
    if kind == "Bin":
        num = rng.choice([1, 2, 3, 5, 7, 10, 12, 20, 33, 60, rng.randint(1, 60)])
        high = low + num * w
        if not high > low:
            high = low + max(abs(low) * 1e-12, 1.0)
        return {"k": "Bin", "num": num, "low": float(low), "high": float(high)}
    if kind == "SparselyBin":
        return {"k": "SparselyBin", "bw": float(w), "origin": float(low)}
    n = rng.randint(2, 8)
    pts = sorted({float(low + j * w * rng.choice([1, 1, 2, 0.5])) for j in range(n)})
    if len(pts) < 2:
        pts = [float(low), float(low) + max(abs(low) * 1e-12, 1.0)]
    if kind == "CentrallyBin":
        return {"k": "CentrallyBin", "centers": pts}
    return {"k": "IrregularlyBin", "edges": pts}


def _edges(cfg):
    k = cfg["k"]
    if k == "Bin":
        num = cfg["num"]
        idx = range(num + 1) if num <= 14 else sorted({0, 1, 2, num // 3, num // 2, num - 2, num - 1, num})
        return [S.bin_edge(cfg, j) for j in idx]
    if k == "SparselyBin":
        return [cfg["origin"] + j * cfg["bw"] for j in (-7, -2, -1, 0, 1, 2, 3, 11)]
    if k == "CentrallyBin":
        cs = cfg["centers"]
        return [(a + b) / 2.0 for a, b in zip(cs, cs[1:])] + [cs[0], cs[-1]]
    return list(cfg["edges"])


def _tree(cfg, content):
    sp = dict(cfg, f="x", qf="lambda", value=content, nan={"k": "Count"})
    if cfg["k"] == "Bin":
        sp.update(under={"k": "Count"}, over={"k": "Count"})
    return sp


def _vector(sp, h):
    """entries of every bin and flow of the root, as a flat labelled list."""
    k = sp["k"]
    out = []
    if k == "Bin":
        out = [("bin%d" % j, v.entries) for j, v in enumerate(h.values)]
        out += [("underflow", h.underflow.entries), ("overflow", h.overflow.entries), ("nanflow", h.nanflow.entries)]
    elif k == "SparselyBin":
        out = [("bin%d" % j, v.entries) for j, v in sorted(h.bins.items())] + [("nanflow", h.nanflow.entries)]
    else:
        out = [("bin%d" % j, v.entries) for j, (_, v) in enumerate(h.bins)] + [("nanflow", h.nanflow.entries)]
    return dict(out)


def _sweep_case(i, rng, tier):
    cfg = _gen_config(rng)
    probes_v = []
    for e in _edges(cfg):
        for n in range(-3, 4):
            probes_v.append(S.ulps(float(e), n))
    probes_v += [float("nan"), float("inf"), float("-inf"), -0.0, 0.0]
    probes_v = [v for v in probes_v if not (isinstance(v, float) and math.isinf(v) and False)]
    w = rng.choice([1.0, 0.5, 2.0, 1.0 + 2.0**-18])
    failures = []
    counters = {"sweep_configs": 1, "sweep_kind:" + cfg["k"]: 1}
    wit = {"config": cfg, "weight": w}

    # row path under the fan-out probe, one probe at a time
    sp = _tree(cfg, {"k": "Count"})
    h = S.build(sp)
    before = _vector(sp, h)
    for v in probes_v:
        roots, exc = probes.traced_fill(h, {"x": v}, w)
        counters["probes_row"] = counters.get("probes_row", 0) + 1
        if exc is not None:
            failures.append(C.fail(None, "fill rejected numeric value %r: %s: %s" % (v, type(exc).__name__, str(exc)[:160]), value=S.jsonable(v), **wit))
            before = _vector(sp, h)
            continue
        for c in roots:
            for msg in probes.fanout_violations(c, counters=counters):
                failures.append(C.fail(None, "fan-out probe at value %r: %s" % (v, msg), value=S.jsonable(v), **wit))
        after = _vector(sp, h)
        grown = [(k, after[k] - before.get(k, 0.0)) for k in after if after[k] != before.get(k, 0.0)]
        if len(grown) != 1 or grown[0][1] != w:
            failures.append(C.fail(None, "value %r changed %r (expected exactly one bin or flow to grow by %r)" % (v, grown, w), value=S.jsonable(v), **wit))
        before = after
        if len(failures) > 3:
            break
    viol = []
    H.invariants(sp, O.observe(h)["data"], viol, counters)
    for m in viol:
        failures.append(C.fail(None, "after the row sweep: " + m, **wit))
    if h.entries != w * (len(probes_v)) and not failures:
        failures.append(C.fail(None, "entries %r != %r after %d probes" % (h.entries, w * len(probes_v), len(probes_v)), **wit))

    # vectorised path: fast path (Count content, finite data) and generic path (Sum content, all data)
    finite = [v for v in probes_v if not (math.isnan(v) or math.isinf(v))]
    for content, vals, name in (({"k": "Count"}, finite, "fast"), ({"k": "Count"}, probes_v, "mixed"), ({"k": "Sum", "f": "y", "qf": "lambda"}, probes_v, "generic")):
        spn = _tree(cfg, content)
        hn = S.build(spn)
        data = {"x": np.array(vals, dtype=np.float64), "y": np.ones(len(vals))}
        for a in data.values():
            a.flags.writeable = False
        wmode = rng.choice(["scalar", "array"])
        try:
            if wmode == "scalar":
                hn.fill.numpy(data, w)
            else:
                hn.fill.numpy(data, B.weights_array([w] * len(vals)))
        except Exception as e:  # noqa: BLE001
            failures.append(C.fail(None, "fill.numpy (%s path) rejected the probes: %s: %s" % (name, type(e).__name__, str(e)[:160]), path=name, **wit))
            continue
        counters["probes_numpy:" + name] = counters.get("probes_numpy:" + name, 0) + len(vals)
        viol = []
        H.invariants(spn, O.observe(hn)["data"], viol, counters)
        for m in viol:
            failures.append(C.fail(None, "after the vectorised sweep (%s path): %s" % (name, m), path=name, **wit))
        if hn.entries != w * len(vals):
            failures.append(C.fail(None, "vectorised sweep (%s path): entries %r != %r" % (name, hn.entries, w * len(vals)), path=name, **wit))
        # every probe is in exactly one bin: the row path's placement of the same values must be reproduced
        if name == "mixed":
            vr, vn = _vector(sp, h), _vector(spn, hn)
            keys = set(vr) | set(vn)
            diffk = [(k, vr.get(k, 0.0), vn.get(k, 0.0)) for k in sorted(keys) if vr.get(k, 0.0) != vn.get(k, 0.0)]
            if diffk and not failures:
                failures.append(C.fail(None, "vectorised and per-row sweeps place the probes differently: %r" % diffk[:4], path=name, **wit))

    return {
        "digest": C.digest(cfg),
        "nontrivial": True,
        "failures": failures[:4],
        "counters": counters,
        "sets": {"sweep_kinds": {cfg["k"]}},
        "sample": {"kind": "sweep", "config": cfg, "n_probes": len(probes_v), "probes": S.jsonable(probes_v[:8])},
    }


def conclusive(agg):
    out = []
    for k in ("Bin", "SparselyBin", "CentrallyBin", "IrregularlyBin"):
        if not agg.counters.get("sweep_kind:" + k):
            out.append("sweep never covered " + k)
    for k in ("partition-sum:Bin", "partition-sum:SparselyBin", "partition-sum:CentrallyBin", "partition-sum:IrregularlyBin", "partition-sum:Categorize", "stack-monotone", "stack-level0+nanflow", "fraction-denominator", "bag-sum", "collection-child-entries:Label", "collection-child-entries:UntypedLabel", "collection-child-entries:Index", "collection-child-entries:Branch"):
        if not agg.counters.get("invariant:" + k):
            out.append("invariant never evaluated: " + k)
    for op in ("fill", "fillnp", "add", "iadd", "mul", "copy", "json", "pickle"):
        if not agg.counters.get("op:" + op):
            out.append("operation never executed: " + op)
    return out
