"""C08 - scaling by a factor equals refilling with every weight multiplied by it.

Monitor: for a reached state h (live or reloaded from JSON) and factor f the product h*f / f*h is
compared with (1) a twin tree refilled with every weight multiplied by f, (2) the ghost model with
scaled weights; f <= 0 / NaN must give the empty aggregator; the algebraic laws (h*a)*b == h*(a*b),
h*1 == h, h*2 == h+h, (g+h)*f == g*f + h*f and commutation with JSON round trips are evaluated; then
the product is used as a first-class aggregator: filled, vectorised-filled, merged, +=, hashed,
serialised, reloaded and scaled again, the ghost model following every step.
"""

import json

from .. import batch as B, env, history as H, observe as O, refmodel as R, spec as S
from . import common as C

ID = "C08"
LEVEL = "exploration"
TECHNIQUE = "differential monitor (h*f vs twin refilled with weights*f) + ghost-model monitor on continuations of the product + algebraic-law oracles"
RULE = (
    "case = (tree spec from the stratified table then random trees without transformed Counts - those refuse scaling by design and are "
    "exercised separately -, stream of 1..10 weighted records, live or JSON-reloaded operand, factors from {0.25,0.5,1,1.5,2,3,8} "
    "and {0,-1,-0.5,NaN}). distinct = digest(spec, stream, factors, reloaded?); non-trivial = the refill comparison and the "
    "continuation (fill/merge/hash/serialise) of the product were evaluated on a non-empty state"
    ' Every 6th case the operand is reached by a vectorised fill with zero-weight rows (zero-entry categories / sparse bins); accessor invariant on every product.'
)
ASSUMPTIONS = [
    "factors and weights are dyadic or small integers so that count-like fields are exact; accumulated fields within tolerance",
    "a Count with a non-identity transform raises ContainerException when scaled (documented mechanism); asserted in a separate stratum",
]
FLOOR = 200

_P = ["count:Count", "sum:Sum", "average:Average", "deviate:Deviate", "minmax:Minimize", "minmax:Maximize", "bag:Bag", "bin:Bin", "sparselybin:SparselyBin", "centrallybin:CentrallyBin", "irregularlybin:IrregularlyBin", "stack:Stack", "fraction:Fraction", "select:Select", "categorize:Categorize", "collection:Label", "collection:UntypedLabel", "collection:Index", "collection:Branch"]
REQUIRED = ["primitives.%s.__mul__" % p for p in _P] + ["primitives.%s.__rmul__" % p for p in _P]

OPTS = {"transforms": False}


def plan(tier):
    return 6000 if tier == "quick" else 70000


def budget(tier):
    return 75 if tier == "quick" else 600


def setup(tier):
    C.setup_probes()


def _np_safe(sp, recs):
    sum_fields = {nd["f"] for _, nd in S.walk(sp) if nd["k"] == "Sum"}
    out = []
    for r in recs:
        r = dict(r)
        if r["c"] is None or isinstance(r["c"], float):
            r["c"] = "NaN"
        for f in sum_fields:
            if r[f] != r[f]:
                r[f] = 0.5
        out.append(r)
    return out


def _built_case(i, rng, tier):
    """Scaling a state assembled by Stack.build / Fraction.build (NaN thresholds; immutable shell around live children):
    laws on the real results, and a non-positive factor must give an empty aggregator that still merges with the operand."""
    label, sp = C.pick_spec(i // 15, rng, tier, OPTS, "c08")
    bkind = rng.choice(["stack", "stack", "fraction"])
    streams = [S.gen_stream(rng, sp, rng.randint(0, 5), {"nonpos_p": 0.0}) for _ in range(rng.randint(2, 3))]
    f = rng.choice(S.FACTORS_POS)
    fneg = rng.choice(S.FACTORS_NONPOS)
    wit = {"tree": S.describe(sp), "spec": sp, "built": bkind, "streams": [C.stream_json(st) for st in streams], "f": S.jsonable(f), "nonpositive": S.jsonable(fneg)}
    failures = []
    counters = {"built_operand:" + bkind: 1}
    scale = max(O.scale_of(st) for st in streams) * max(1.0, float(f)) * 4

    def bad(msg, **kw):
        failures.append(C.fail(None, msg, **dict(wit, **kw)))

    h = C.built_state(sp, streams, bkind)
    before = O.text(h)

    def law(name, a, b):
        try:
            d = O.diff(O.observe(a()), O.observe(b()), scale)
        except Exception as e:  # noqa: BLE001
            bad("built operand: %s raised %s: %s" % (name, type(e).__name__, str(e)[:160]), law=name)
            return
        counters["built_laws_checked"] = counters.get("built_laws_checked", 0) + 1
        if d:
            bad("built operand: %s fails: %s" % (name, C.fmt_diff(d)), law=name)

    twin = C.built_state(sp, [[(r, w * f) for r, w in st] for st in streams], bkind)
    law("h*f == the same assembly of parts refilled with weights*f", lambda: h * f, lambda: twin)
    law("f*h == h*f", lambda: f * h, lambda: h * f)
    law("h*1 == h", lambda: h * 1, lambda: h)
    law("h*2 == h+h", lambda: h * 2, lambda: h + h)
    law("h*nonpositive == h.zero()", lambda: h * fneg, lambda: h.zero())
    law("(h*nonpositive) + h == h", lambda: (h * fneg) + h, lambda: h)
    law("h + (h*nonpositive) == h", lambda: h + (h * fneg), lambda: h)
    law("(h*f) + h == h*(f+1)", lambda: (h * f) + h, lambda: h * (f + 1))
    if O.text(h) != before:
        bad("scaling a built operand changed it")
    return {
        "digest": C.digest(sp, bkind, wit["streams"], S.jsonable(f), S.jsonable(fneg)),
        "nontrivial": counters.get("built_laws_checked", 0) > 0,
        "failures": failures[:4],
        "counters": counters,
        "sets": {"kinds": S.kinds_in(sp), "factors": {repr(S.jsonable(f)), repr(S.jsonable(fneg))}},
        "sample": {"kind": "built operand", "stratum": label, "tree": S.describe(sp), "built": bkind, "f": S.jsonable(f), "nonpositive": S.jsonable(fneg)},
    }


def run_case(i, rng, tier):
    from histogrammar.defs import Factory

    if i % 25 == 24:
        return _transform_case(i, rng, tier)
    if i % 15 == 7:
        return _built_case(i, rng, tier)
    label, sp = C.pick_spec(i, rng, tier, OPTS, "c08")
    n = rng.randint(1, 10)
    stream = S.gen_stream(rng, sp, n)
    reloaded = i % 3 == 2
    pickled = i % 6 == 1  # a clone that went through pickle: equal, but none of its functions is the same object
    f = rng.choice(S.FACTORS_POS)
    g = rng.choice(S.FACTORS_POS)
    fneg = rng.choice(S.FACTORS_NONPOS)
    failures = []
    counters = {"reloaded_operand" if reloaded else "live_operand": 1}
    wit = {"tree": S.describe(sp), "spec": sp, "stream": C.stream_json(stream), "f": S.jsonable(f), "g": S.jsonable(g), "reloaded": reloaded}
    scale = O.scale_of(stream) * max(1.0, float(f) * float(g))

    def bad(msg, **kw):
        failures.append(C.fail(None, msg, **dict(wit, **kw)))

    vectorised = i % 6 == 4 and S.has_quantity(sp) and not reloaded
    if vectorised:
        # a state reached by a vectorised fill with some zero weights: it holds categories / sparse bins of zero
        # entries, which scaling has to carry along like everything else (h*1 == h, h*2 == h+h on the real results)
        recs = _np_safe(sp, [r for r, _ in stream])
        ws = [rng.choice([1.0, 0.5, 2.0, 0.0, 0.0, 3.0]) for _ in recs]
        bat = B.Batch(B.columns(recs), "dict")
        rows = B.rows(bat.saved, len(recs))
        stream = list(zip(rows, ws))
        wit["stream"] = C.stream_json(stream)
        wit["vectorised"] = True
        live = S.build(sp)
        live.fill.numpy(bat.data, B.weights_array(ws))
        counters["vectorised_operand"] = 1
    else:
        live = C.fill_all(S.build(sp), stream)
    h = Factory.fromJson(json.loads(json.dumps(live.toJson()))) if reloaded else live
    if pickled:
        import pickle

        h = pickle.loads(pickle.dumps(live))
        counters["pickled_operand"] = 1
    before = O.text(h)

    def obs(x):
        return O.observe(x)

    # 1. product vs refill with weights*f, both operator orders
    if vectorised:
        twin = S.build(sp)
        twin.fill.numpy(B.Batch(B.columns(recs), "dict").data, B.weights_array([w * f for w in ws]))
    else:
        twin = C.fill_all(S.build(sp), [(r, w * f) for r, w in stream])
    want = obs(twin)
    prods = {}
    for name, fn in (("h*f", lambda: h * f), ("f*h", lambda: f * h)):
        try:
            p = fn()
        except Exception as e:  # noqa: BLE001
            bad("%s raised %s: %s" % (name, type(e).__name__, str(e)[:200]), op=name)
            continue
        prods[name] = p
        d = O.diff(want, obs(p), scale)
        counters["refill_comparisons"] = counters.get("refill_comparisons", 0) + 1
        if d:
            bad("%s differs from refilling with every weight multiplied by %r: %s" % (name, f, C.fmt_diff(d)), op=name)
    if O.text(h) != before:
        bad("scaling changed its operand")
    if len(prods) < 2:
        return {"failures": failures, "counters": counters, "digest": C.digest(sp, stream, f, reloaded), "nontrivial": False}
    p = prods["h*f"]

    # 2. non-positive / NaN factor gives the empty aggregator
    try:
        z = h * fneg
        okz, dz, _, _ = R.match(sp, [], obs(z), 1.0)
        counters["nonpositive_factor_checked"] = 1
        if not okz:
            bad("h * %r is not the empty aggregator: %s" % (S.jsonable(fneg), C.fmt_diff(dz)), op="h*nonpos")
        zz = fneg * h
        if O.diff(obs(z), obs(zz), 1.0):
            bad("%r * h differs from h * %r" % (S.jsonable(fneg), S.jsonable(fneg)))
    except Exception as e:  # noqa: BLE001
        bad("h * %r raised %s: %s" % (S.jsonable(fneg), type(e).__name__, str(e)[:200]), op="h*nonpos")

    # 3. laws
    def law(name, a, b):
        try:
            d = O.diff(obs(a()), obs(b()), scale)
        except Exception as e:  # noqa: BLE001
            bad("law %s raised %s: %s" % (name, type(e).__name__, str(e)[:200]), law=name)
            return
        counters["laws_checked"] = counters.get("laws_checked", 0) + 1
        if d:
            bad("law %s fails: %s" % (name, C.fmt_diff(d)), law=name)

    law("(h*a)*b == h*(a*b)", lambda: (h * f) * g, lambda: h * (f * g))
    law("h*1 == h", lambda: h * 1, lambda: h)
    law("h*1.0 == h", lambda: h * 1.0, lambda: h)
    law("h*2 == h+h", lambda: h * 2, lambda: h + h)
    other = C.fill_all(S.build(sp), S.gen_stream(rng, sp, rng.randint(0, 5)))
    law("(g+h)*f == g*f + h*f", lambda: (other + h) * f, lambda: other * f + h * f)
    law("fromJson((h*f).toJson()) == fromJson(h.toJson())*f", lambda: Factory.fromJson(json.loads(json.dumps((h * f).toJson(), allow_nan=False))), lambda: Factory.fromJson(json.loads(json.dumps(h.toJson()))) * f)

    # 4. the product is a first-class aggregator
    items = [(r, w * f) for r, w in stream if R.gate(w)]

    def ghost(x, its, what):
        ok, d, _, inc = R.match(sp, its, O.drop_zero_sparse(obs(x)), O.scale_of(its) if its else 1.0, norm=O.drop_zero_sparse)
        counters["continuation_ghost_checks"] = counters.get("continuation_ghost_checks", 0) + 1
        if not ok and not inc:
            bad("after %s the product differs from the model: %s" % (what, C.fmt_diff(d)), op=what)

    for nm_, x_ in (("h*f", p), ("f*h", prods["f*h"]), ("(h*f)*g", (h * f) * g)):
        for v in H.accessor_violations(x_, counters=counters):
            bad("%s: accessor invariant broken: %s" % (nm_, v), op="accessors")
    try:
        hash(p)
        counters["hashed"] = 1
    except Exception as e:  # noqa: BLE001
        bad("hash(h*f) raised %s: %s" % (type(e).__name__, str(e)[:200]), op="hash")
    try:
        json.dumps(p.toJson(), allow_nan=False)
        rp = Factory.fromJson(json.loads(json.dumps(p.toJson())))
        if O.diff(obs(rp), obs(p), 0.0, exact=True):
            bad("the product does not round-trip through JSON", op="json")
        counters["serialised"] = 1
    except Exception as e:  # noqa: BLE001
        bad("serialising h*f raised %s: %s" % (type(e).__name__, str(e)[:200]), op="json")
    if not reloaded:
        extra = S.gen_stream(rng, sp, rng.randint(1, 4), {"nonpos_p": 0.0})
        try:
            for r, w in extra:
                p.fill(r, w)
            items = items + extra
            counters["filled"] = 1
            ghost(p, items, "fill")
            if S.has_quantity(sp):
                recs = _np_safe(sp, [r for r, _ in S.gen_stream(rng, sp, 3)])
                bat = B.Batch(B.columns(recs), "dict")
                ws = [1.0, 0.5, 2.0]
                p.fill.numpy(bat.data, B.weights_array(ws))
                items = items + list(zip(B.rows(bat.saved, 3), ws))
                counters["filled_numpy"] = 1
                ghost(p, items, "fill.numpy")
        except Exception as e:  # noqa: BLE001
            bad("filling the product raised %s: %s" % (type(e).__name__, str(e)[:200]), op="fill")
    try:
        oitems = [(r, w) for r, w in S.gen_stream(rng, sp, 3)]
        o2 = C.fill_all(S.build(sp), oitems)
        s1 = p + o2
        ghost(s1, items + oitems, "+")
        s2 = o2 + p
        ghost(s2, oitems + items, "+ (product on the right)")
        p += o2
        items = items + oitems
        ghost(p, items, "+=")
        counters["merged"] = 1
        p2 = p * g
        ghost(p2, [(r, w * g) for r, w in items if R.gate(w)], "second scaling")
        hash(p2)
    except Exception as e:  # noqa: BLE001
        bad("merging / rescaling the product raised %s: %s" % (type(e).__name__, str(e)[:200]), op="merge")

    # the product is an aggregator of its own: nothing done to it (fills, vectorised fills, +=, rescaling) may show in
    # the operand it was computed from, nor in another product of the same operand
    counters["operand_checked_after_continuation"] = 1
    if O.text(h) != before:
        d_ = O.diff(json.loads(before), json.loads(O.text(h)), 0.0, exact=True)
        bad("filling / merging into h*f changed h itself: %s" % C.fmt_diff(d_), op="aliasing")
    try:
        other_prod = prods["f*h"]
        d_ = O.diff(want, obs(other_prod), scale)
        if d_:
            bad("filling / merging into h*f changed the separately computed f*h: %s" % C.fmt_diff(d_), op="aliasing")
    except Exception as e:  # noqa: BLE001
        bad("observing f*h after the continuation on h*f raised %s" % type(e).__name__, op="aliasing")

    nt = C.nontrivial(sp, stream) and counters.get("refill_comparisons", 0) == 2 and counters.get("merged", 0) == 1
    return {
        "digest": C.digest(sp, stream, S.jsonable(f), S.jsonable(g), reloaded, pickled),
        "nontrivial": nt,
        "failures": failures[:4],
        "counters": counters,
        "sets": {"kinds": S.kinds_in(sp), "factors": {repr(S.jsonable(f)), repr(S.jsonable(fneg))}},
        "sample": C.case_sample(label, sp, stream, f=S.jsonable(f), g=S.jsonable(g), nonpositive=S.jsonable(fneg), reloaded=reloaded),
    }


def _transform_case(i, rng, tier):
    """A filled Count with a non-identity transform refuses scaling with a ContainerException."""
    hg = env.hg()
    sp = {"k": "Bin", "num": 2, "low": 0.0, "high": 2.0, "f": "x", "qf": "lambda", "value": {"k": "Count", "t": rng.choice(["dbl", "sq"])}, "under": {"k": "Count"}, "over": {"k": "Count"}, "nan": {"k": "Count"}}
    if i % 2:
        sp = sp["value"]
    stream = S.gen_stream(rng, sp, 4, {"nonpos_p": 0.0})
    h = C.fill_all(S.build(sp), stream)
    failures = []
    f = rng.choice([0.5, 2, 3.0])
    try:
        h * f
        failures.append(C.fail(None, "scaling a tree with a transformed Count by %r did not raise" % f, tree=S.describe(sp)))
    except Exception as e:  # noqa: BLE001
        if type(e).__name__ != "ContainerException":
            failures.append(C.fail(None, "scaling a transformed Count raised %s instead of ContainerException" % type(e).__name__, tree=S.describe(sp)))
    return {"digest": C.digest(sp, stream, f), "nontrivial": True, "failures": failures, "counters": {"transform_refusals_checked": 1}, "sets": {}, "sample": {"kind": "transformed Count refuses scaling", "tree": S.describe(sp)}}


def conclusive(agg):
    out = []
    for c in ("live_operand", "reloaded_operand", "pickled_operand", "vectorised_operand", "built_laws_checked", "operand_checked_after_continuation", "refill_comparisons", "nonpositive_factor_checked", "laws_checked", "hashed", "serialised", "filled", "filled_numpy", "merged", "transform_refusals_checked"):
        if not agg.counters.get(c):
            out.append("never exercised: " + c)
    miss = [k for k in S.ALL_KINDS if k not in agg.sets.get("kinds", ())]
    if miss:
        out.append("primitives never generated: %s" % ", ".join(miss))
    return out
