"""C17 - user-function wrappers preserve behaviour: named / cached / serializable / strings.

Monitors.  (1) Wrapper algebra: all 3! application orders of named / cached / serializable (and the
sub-orders of two of them) on lambdas, def functions and string expressions must give wrappers that
are equal, hash equal, carry the same name and type; a second name raises ValueError.
(2) Shadow execution: every wrapper is paired with the raw function (which counts its invocations);
every call of a generated sequence goes to both and the results must be identical.  Sequences mix
{the same object again, an equal but distinct object, a different value} x {scalars, arrays, dict
records, keyword arguments}.  (3) String expressions from a small grammar are rendered both as a
string and as a Python lambda and evaluated on dict records, attribute records and bare scalars; twin
aggregators built from either form are filled row-wise and vectorised and must have identical
documents.
"""

import itertools
import math

import numpy as np

from .. import env, observe as O, spec as S
from . import common as C

ID = "C17"
LEVEL = "exploration"
TECHNIQUE = "shadow execution of wrapped vs raw functions over generated call sequences + differential twin aggregators (string expression vs Python function)"
RULE = (
    "case kinds: wrapper-order case = one underlying callable (lambda / def / string) x all application orders; call-sequence case = one "
    "wrapper kind x sequence of 2..30 calls over the argument alphabet; expression case = one random expression of depth<=4 x record "
    "representation {dict, attribute object, bare scalar} x twin aggregators {Sum, Average, Bin, Select, SparselyBin} filled row-wise and "
    "vectorised. distinct = digest(case description); non-trivial = >=1 wrapped call compared with the raw function / >=1 twin comparison"
    ' Call sequences include arguments modified in place between calls and sign-of-zero-sensitive functions.'
)
ASSUMPTIONS = [
    "the same argument object mutated in place between two calls is not generated: the identity shortcut of CachedFcn is its documented purpose and the statement speaks of equal and different arguments",
    "vectorised twins use array-safe operators only (+ - * / comparisons abs, np.sqrt, np.floor): math.sqrt on an array fails in the string form and in the lambda alike",
]
FLOOR = 200

REQUIRED = ["util:CachedFcn.__call__", "util:UserFcn.__call__", "util:named", "util:cached", "util:serializable", "util:UserFcn.__eq__", "util:UserFcn.__hash__"]


def plan(tier):
    return 8000 if tier == "quick" else 100000


def budget(tier):
    return 75 if tier == "quick" else 600


def setup(tier):
    C.setup_probes()


# ------------------------------------------------------------------------------------------------
# (1) wrapper algebra


def _underlying(kind):
    if kind == "lambda":
        return eval("lambda x: x * 2 + 1", {})
    if kind == "def":
        ns = {}
        exec("def twice_plus_one(x):\n    return x * 2 + 1\n", ns)
        return ns["twice_plus_one"]
    if kind == "nested-def":
        # a def written inside another function or method (its __qualname__ differs from its __name__)
        ns = {}
        exec("def factory():\n    def twice_plus_one(x):\n        return x * 2 + 1\n    return twice_plus_one\n", ns)
        return ns["factory"]()
    if kind == "closure-nan":
        # a closure that captured a NaN (a "missing value" default) and a list: cell contents that do not compare equal
        # to themselves, or only by identity
        ns = {}
        exec("def factory():\n    missing = float('nan')\n    extra = [1]\n    def f(x):\n        return (x * 2 + 1) if x == x else missing + extra[0]\n    return f\n", ns)
        return ns["factory"]()
    return "x * 2 + 1"


_SHARED = {}


def _shared_underlying(kind):
    """One function object per kind, wrapped again and again: the same function must give equal wrappers every time."""
    if kind not in _SHARED:
        _SHARED[kind] = _underlying(kind)
    return _SHARED[kind]


def _orders_case(k, rng):
    from histogrammar.util import CachedFcn, UserFcn, cached, named, serializable

    kind = ("lambda", "def", "string", "nested-def", "closure-nan")[(k // 2) % 5]
    failures = []
    counters = {"orders_cases": 1}
    wit = {"underlying": kind}
    ops = {"named": lambda f: named("nm", f), "cached": cached, "serializable": serializable}
    evaluate_between = (k // 10) % 2 == 1  # the wrapper is used (called) between two wrapping steps, as it is when an aggregator is filled
    for subset in (("named", "cached", "serializable"), ("named", "cached"), ("named", "serializable"), ("cached", "serializable"), ("named", "serializable", "serializable"), ("named", "serializable", "cached", "serializable")):
        results = {}
        for order in (itertools.permutations(subset) if len(set(subset)) == len(subset) else [subset]):
            f = _shared_underlying(kind) if kind == "closure-nan" else _underlying(kind)
            try:
                for o in order:
                    f = ops[o](f)
                    if evaluate_between:
                        f(3.0)
            except Exception as e:  # noqa: BLE001
                results[order] = e
                continue
            results[order] = f
            counters["orders_built"] = counters.get("orders_built", 0) + 1
        errs = {o: r for o, r in results.items() if isinstance(r, Exception)}
        good = {o: r for o, r in results.items() if not isinstance(r, Exception)}
        for o, e in errs.items():
            failures.append(C.fail(None, "applying %s to a %s raised %s: %s" % (" then ".join(o), kind, type(e).__name__, str(e)[:120]), order=list(o), **wit))
        vals = list(good.items())
        for (o1, a), (o2, b) in itertools.combinations(vals, 2):
            if not (a == b and b == a):
                failures.append(C.fail(None, "orders %s and %s give unequal wrappers for a %s" % (o1, o2, kind), **wit))
            elif hash(a) != hash(b):
                failures.append(C.fail(None, "orders %s and %s give equal wrappers with different hashes" % (o1, o2), **wit))
            if a.name != b.name or type(a) is not type(b):
                failures.append(C.fail(None, "orders %s and %s differ in name/type: %r %s vs %r %s" % (o1, o2, a.name, type(a).__name__, b.name, type(b).__name__), **wit))
        for o, f in good.items():
            if "named" in o and f.name != "nm":
                failures.append(C.fail(None, "order %s lost the name: %r" % (o, f.name), **wit))
            if "cached" in o and not isinstance(f, CachedFcn):
                failures.append(C.fail(None, "order %s lost the caching" % (o,), **wit))
            if not isinstance(f, UserFcn):
                failures.append(C.fail(None, "order %s did not produce a UserFcn" % (o,), **wit))
            # behaviour preserved
            try:
                if f(3.0) != 7.0 or f(3.0) != 7.0 or f(4.0) != 9.0:
                    failures.append(C.fail(None, "order %s on a %s computes a different function" % (o, kind), **wit))
            except Exception as e:  # noqa: BLE001
                failures.append(C.fail(None, "calling the wrapper built by %s on a %s raised %s: %s" % (o, kind, type(e).__name__, str(e)[:120]), **wit))
            # a second name raises ValueError
            if "named" in o:
                try:
                    named("other", f)
                    failures.append(C.fail(None, "a second name was accepted after %s" % (o,), **wit))
                except ValueError:
                    counters["second_name_rejected"] = counters.get("second_name_rejected", 0) + 1
                except Exception as e:  # noqa: BLE001
                    failures.append(C.fail(None, "a second name raised %s instead of ValueError" % type(e).__name__, **wit))
    # a first name that happens to equal the name the function would have had anyway (the name of a def, the text of
    # an expression) is a name all the same: a second one is refused, also through cached()
    from histogrammar.util import _defaultName

    dn = _defaultName(_underlying(kind)) if hasattr(__import__("histogrammar.util").util, "_defaultName") else None
    if dn is not None:
        for how, mk in (("named", lambda: named(dn, _underlying(kind))), ("cached(named)", lambda: cached(named(dn, _underlying(kind)))), ("named(cached)", lambda: named(dn, cached(_underlying(kind))))):
            try:
                named("other", mk())
                failures.append(C.fail(None, "a second name was accepted after %s with a first name equal to the default name %r" % (how, dn), **wit))
            except ValueError:
                counters["second_name_rejected_default"] = counters.get("second_name_rejected_default", 0) + 1
            except Exception as e:  # noqa: BLE001
                failures.append(C.fail(None, "a second name (first equal to the default) raised %s instead of ValueError" % type(e).__name__, **wit))
    # an empty (falsy) first name is a name as well
    for first in ("", " ", "0"):
        for how, mk in (("named", lambda: named(first, _underlying(kind))), ("cached(named)", lambda: cached(named(first, _underlying(kind)))), ("serializable(named)", lambda: serializable(named(first, _underlying(kind))))):
            try:
                w_ = mk()
                if w_.name != first:
                    failures.append(C.fail(None, "%s with the name %r gives a wrapper named %r" % (how, first, w_.name), **wit))
                named("other", w_)
                failures.append(C.fail(None, "a second name was accepted after %s with the first name %r" % (how, first), **wit))
            except ValueError:
                counters["second_name_rejected_falsy_first"] = counters.get("second_name_rejected_falsy_first", 0) + 1
            except Exception as e:  # noqa: BLE001
                failures.append(C.fail(None, "a second name (first %r) raised %s instead of ValueError" % (first, type(e).__name__), **wit))
    # idempotence
    f = cached(_underlying(kind))
    if cached(f) is not f or serializable(f) is not f:
        failures.append(C.fail(None, "cached/serializable re-wrap an already wrapped function", **wit))
    return {"digest": C.digest("orders", kind), "nontrivial": True, "failures": failures[:6], "counters": counters, "sets": {"underlying": {kind}}, "sample": {"kind": "wrapper orders", "underlying": kind}}


# ------------------------------------------------------------------------------------------------
# (2) shadow execution


class Raw:
    def __init__(self, fn):
        self.fn = fn
        self.calls = 0

    def __call__(self, *a, **kw):
        self.calls += 1
        return self.fn(*a, **kw)


class Rec:
    """A record with attributes (what a row of an event loop looks like); compares by identity like any plain object."""

    def __init__(self, **kw):
        self.__dict__.update(kw)

    def __repr__(self):
        return "Rec(%s)" % ", ".join("%s=%r" % kv for kv in sorted(self.__dict__.items()))


def _same_result(a, b):
    if isinstance(a, np.ndarray) or isinstance(b, np.ndarray):
        try:
            return type(a) is type(b) and np.array_equal(a, b, equal_nan=True)
        except Exception:  # noqa: BLE001
            return False
    if isinstance(a, float) and isinstance(b, float) and math.isnan(a) and math.isnan(b):
        return True
    return type(a) is type(b) and a == b


FUNCS = {
    "scalar": ("lambda x: x * 2 + 1", lambda rng: rng.choice([0.0, 1.0, 1, True, 2.5, -3.25, float("nan"), 7, 1e300, "ab"])),
    "record": ("lambda d: d['x'] + d['y']", lambda rng: {"x": rng.choice([0.0, 1.0, 2.5, float("nan")]), "y": rng.choice([0.5, 1, 2])}),
    "array": ("lambda a: a * 2 + 1", lambda rng: np.array([rng.choice([0.0, 1.0, 2.5, float("nan")]) for _ in range(rng.choice([1, 1, 2, 3]))])),
    "batch": ("lambda d: d['x'] + d['y']", lambda rng: {"x": np.array([rng.choice([0.0, 1.0]) for _ in range(rng.choice([1, 2]))]), "y": np.array([1.0, 2.0])[: rng.choice([1, 2])]}),
    "kwargs": ("lambda x, k=1: x * k", lambda rng: rng.choice([0.0, 1.0, 2.5, 3])),
    "two": ("lambda x, y: x - y", lambda rng: rng.choice([0.0, 1.0, 2.5, 3])),
    # a function that hands back (part of) its argument: the cache must not keep, or hand out, the caller's own object
    "column": ("lambda d: d['x']", lambda rng: {"x": np.array([rng.choice([0.0, 1.0, 2.5]) for _ in range(rng.choice([1, 2]))]), "y": np.array([1.0, 2.0])[: 1]}),
    # a function that shows the type of its argument: 1, True, 1.0, numpy.float64(1.0), numpy.int64(1) are five arguments
    "typed": ("lambda x: type(x).__name__ + ':' + repr(x * 1)", lambda rng: rng.choice([1, True, 1.0, np.float64(1.0), np.int64(1), 0, False, 0.0, np.float64(0.0), -4.0, np.float64(-4.0)])),
    # a read-only window on a buffer that its owner refills
    "window": ("lambda a: a * 2 + 1", lambda rng: _readonly_view(np.array([rng.choice([0.0, 1.0, 2.5]) for _ in range(rng.choice([1, 2, 3]))]))),
    # an event object with attributes, a DataFrame: neither dict nor array, both refillable in place
    "attrs": ("lambda ev: ev.x * 2 + ev.y", lambda rng: Rec(x=rng.choice([0.0, 1.0, 2.5]), y=rng.choice([0.5, 1, 2]))),
    "frame": ("lambda d: (d['x'] * 2 + 1).to_numpy()", lambda rng: __import__("pandas").DataFrame({"x": [rng.choice([0.0, 1.0, 2.5]) for _ in range(rng.choice([1, 2]))]})),
    # functions that tell +0.0 from -0.0 (the two compare equal, the function values differ)
    "signed": ("lambda x: __import__('math').copysign(1.0, x)", lambda rng: rng.choice([0.0, -0.0, 0.0, -0.0, 1.0, -2.5])),
    "signedarray": ("lambda a: __import__('numpy').copysign(1.0, a)", lambda rng: np.array([rng.choice([0.0, -0.0, 1.0]) for _ in range(rng.choice([1, 2]))])),
}


def _readonly_view(base):
    v = base.view()
    v.flags.writeable = False
    return v


def _mutate_in_place(args, rng):
    """Change the previous call's mutable arguments in place (a reused record dict, a refilled buffer): the same
    objects now hold other values.  Returns True if something was changed."""
    done = False
    for a in list(args[0]) + list(args[1].values()):
        if isinstance(a, np.ndarray) and a.size and a.flags.writeable:
            a[rng.randrange(a.size)] = rng.choice([5.0, -7.5, 0.25])
            done = True
        elif isinstance(a, np.ndarray) and a.size and isinstance(a.base, np.ndarray) and a.base.flags.writeable:
            a.base[rng.randrange(a.base.size)] = rng.choice([5.0, -7.5, 0.25])  # the owner refills its buffer
            done = True
        elif isinstance(a, Rec):
            a.x = rng.choice([5.0, -7.5, 0.25])
            done = True
        elif type(a).__name__ == "DataFrame":
            a.loc[:, "x"] = [rng.choice([5.0, -7.5, 0.25]) for _ in range(len(a))]
            done = True
        elif isinstance(a, dict) and a:
            key = rng.choice(sorted(a))
            v = a[key]
            if isinstance(v, np.ndarray) and v.size:
                if rng.random() < 0.5:
                    v[rng.randrange(v.size)] = rng.choice([5.0, -7.5, 0.25])
                else:
                    a[key] = v + 1.0
            else:
                a[key] = rng.choice([5.0, -7.5, 0.25])
            done = True
    return done


def _clone_arg(a):
    if isinstance(a, np.ndarray):
        return a.copy() if a.flags.writeable else _readonly_view(a.copy())
    if isinstance(a, dict):
        return {k: _clone_arg(v) for k, v in a.items()}
    if isinstance(a, Rec):
        return Rec(**a.__dict__)
    if type(a).__name__ == "DataFrame":
        return a.copy()
    if isinstance(a, np.generic):
        return type(a)(a)  # an equal scalar of the same numpy type
    if isinstance(a, float):
        return float(repr(a)) if a == a else float("nan")
    return a


def _shadow_case(k, rng):
    from histogrammar.util import cached, named, serializable

    fk = sorted(FUNCS)[k % len(FUNCS)]
    src, gen = FUNCS[fk]
    wrap_kind = ("cached", "named", "namedcached", "serializable", "cachednamed")[(k // len(FUNCS)) % 5]
    raw = Raw(eval(src, {}))
    f = eval(src, {})
    w = {"cached": lambda: cached(f), "named": lambda: named("n", f), "namedcached": lambda: cached(named("n", f)), "serializable": lambda: serializable(f), "cachednamed": lambda: named("n", cached(f))}[wrap_kind]()
    failures = []
    counters = {"shadow_sequences": 1, "wrap:" + wrap_kind: 1}
    n = rng.randint(2, 30)
    prev = None
    log = []
    for j in range(n):
        how = rng.choice(["same", "equal", "different", "different", "mutated"]) if prev is not None else "different"
        if how == "mutated" and not _mutate_in_place(prev, rng):
            how = "same"
        if how in ("same", "mutated"):
            args = prev
        elif how == "equal":
            args = (tuple(_clone_arg(a) for a in prev[0]), {kk: _clone_arg(v) for kk, v in prev[1].items()})
        else:
            a = gen(rng)
            if fk == "kwargs":
                args = ((a,), {"k": rng.choice([1, 2, 0.5])} if rng.random() < 0.7 else {})
            elif fk == "two":
                args = ((a, gen(rng)), {})
            else:
                args = ((a,), {})
        prev = args
        log.append([how, S.jsonable(args[0]), S.jsonable(args[1])])
        try:
            want = raw(*args[0], **args[1])
            werr = None
        except Exception as e:  # noqa: BLE001
            want, werr = None, e
        try:
            got = w(*args[0], **args[1])
            gerr = None
        except Exception as e:  # noqa: BLE001
            got, gerr = None, e
        counters["shadow_calls"] = counters.get("shadow_calls", 0) + 1
        counters["shadow_calls:" + how] = counters.get("shadow_calls:" + how, 0) + 1
        if (werr is None) != (gerr is None):
            failures.append(C.fail(None, "%s wrapper of `%s`: call %d (%s argument) %s but the raw function %s" % (wrap_kind, src, j, how, "raised %s: %s" % (type(gerr).__name__, str(gerr)[:100]) if gerr else "returned", "raised %s" % type(werr).__name__ if werr else "returned"), calls=log, **{"function": src, "wrapper": wrap_kind}))
            break
        if werr is None and _same_result(want, got) and isinstance(got, np.ndarray) and got.flags.writeable and rng.random() < 0.3 and not any(got is a_ or (isinstance(a_, dict) and any(got is v_ for v_ in a_.values())) for a_ in args[0]):
            # the caller goes on to use the result in place (q[nan_rows] = 0 ...): that must not reach the cache
            got += 100.0
            log[-1].append("result modified in place by the caller")
            counters["results_modified_in_place"] = counters.get("results_modified_in_place", 0) + 1
            continue
        if werr is None and not _same_result(want, got):
            failures.append(C.fail(None, "%s wrapper of `%s`: call %d (%s argument) returned %r, the raw function returns %r" % (wrap_kind, src, j, how, S.jsonable(got), S.jsonable(want)), calls=log, **{"function": src, "wrapper": wrap_kind}))
            break
    return {
        "digest": C.digest("shadow", fk, wrap_kind, log),
        "nontrivial": counters.get("shadow_calls", 0) > 0,
        "failures": failures,
        "counters": counters,
        "sets": {"functions": {fk}},
        "sample": {"kind": "call sequence", "function": src, "wrapper": wrap_kind, "calls": log[:6], "n_calls": n},
    }


# ------------------------------------------------------------------------------------------------
# (3) string expressions


def _gen_expr(rng, depth, vector, fields, nested=False):
    """(string form, python form over record d) of a random expression.  nested: also generator expressions and
    lambdas whose bodies use record fields (a nested scope resolves them as globals of the evaluation)."""
    if depth <= 0 or rng.random() < 0.25:
        if rng.random() < 0.6:
            f = rng.choice(fields)
            return f, "d['%s']" % f
        lit = rng.choice(["1", "2.5", "0.5", "3", "10"])
        return lit, lit
    kind = rng.choice(["bin", "bin", "bin", "div", "neg", "fn", "cmp"] + ([] if vector else ["bool", "not", "mathfn"]) + (["genexp", "lam", "listcomp"] if nested else []))
    a, pa = _gen_expr(rng, depth - 1, vector, fields, nested)
    b, pb = _gen_expr(rng, depth - 1, vector, fields, nested)
    if kind == "genexp":
        return "sum(%s * k_ for k_ in range(1, 4))" % a, "sum(%s * k_ for k_ in range(1, 4))" % pa
    if kind == "listcomp":
        return "max([%s - k_ for k_ in (0, 1) if k_ <= abs(%s)])" % (a, b), "max([%s - k_ for k_ in (0, 1) if k_ <= abs(%s)])" % (pa, pb)
    if kind == "lam":
        return "(lambda s_: s_ + %s)(%s)" % (a, b), "(lambda s_: s_ + %s)(%s)" % (pa, pb)
    if kind == "bin":
        op = rng.choice(["+", "-", "*"])
        return "(%s %s %s)" % (a, op, b), "(%s %s %s)" % (pa, op, pb)
    if kind == "div":
        return "(%s / (abs(%s) + 1))" % (a, b), "(%s / (abs(%s) + 1))" % (pa, pb)
    if kind == "neg":
        return "(-%s)" % a, "(-%s)" % pa
    if kind == "fn":
        fn = rng.choice(["abs", "np.sqrt_abs", "np.floor"])
        if fn == "abs":
            return "abs(%s)" % a, "abs(%s)" % pa
        if fn == "np.sqrt_abs":
            return "np.sqrt(abs(%s))" % a, "__import__('numpy').sqrt(abs(%s))" % pa
        return "np.floor(%s)" % a, "__import__('numpy').floor(%s)" % pa
    if kind == "mathfn":
        fn = rng.choice(["sqrt", "exp", "floor"])
        if fn == "sqrt":
            return "sqrt(abs(%s))" % a, "__import__('math').sqrt(abs(%s))" % pa
        if fn == "exp":
            return "exp(-abs(%s))" % a, "__import__('math').exp(-abs(%s))" % pa
        return "floor(%s)" % a, "__import__('math').floor(%s)" % pa
    if kind == "cmp":
        op = rng.choice(["<", "<=", ">", ">=", "==", "!="])
        return "(%s %s %s)" % (a, op, b), "(%s %s %s)" % (pa, op, pb)
    if kind == "bool":
        op = rng.choice(["and", "or"])
        return "((%s > 0) %s (%s > 1))" % (a, op, b), "((%s > 0) %s (%s > 1))" % (pa, op, pb)
    return "(not (%s > 0))" % a, "(not (%s > 0))" % pa


class AttrRecord:
    def __init__(self, d):
        self.__dict__.update(d)


def _expr_case(k, rng, tier):
    hg = env.hg()
    from histogrammar.util import UserFcn

    rep = ("dict", "attr", "scalar", "vector")[k % 4]
    fields = ["x"] if rep == "scalar" else ["x", "y", "z"]
    vector = rep == "vector"
    sexpr, pexpr = _gen_expr(rng, rng.randint(1, 4), vector, fields, nested=rep in ("dict", "attr") and (k // 4) % 3 == 0)
    failures = []
    counters = {"expr_cases": 1, "expr_rep:" + rep: 1}
    if "k_" in sexpr or "s_" in sexpr:
        counters["expr_with_nested_scope"] = 1
    wit = {"expression": sexpr, "python": "lambda d: " + pexpr, "representation": rep}
    rename = {}
    if rep in ("dict", "attr") and rng.random() < 0.35:
        # record fields called like names the evaluation namespace already holds (math constants and functions, modules
        # and helpers of histogrammar.util): on a record, the field is what the expression means
        import re

        hostile = rng.sample(["e", "pi", "tau", "inf", "nan", "gamma", "copy", "math", "id", "long", "types", "named", "basestring"], 3)
        rename = dict(zip(("x", "y", "z"), hostile))
        for old_, new_ in rename.items():
            sexpr = re.sub(r"\b%s\b" % old_, "\x00" + new_, sexpr)
            pexpr = pexpr.replace("d['%s']" % old_, "d['\x00%s']" % new_)
        sexpr, pexpr = sexpr.replace("\x00", ""), pexpr.replace("\x00", "")
        counters["hostile_field_names"] = 1
        wit.update(expression=sexpr, python="lambda d: " + pexpr)
    pyf = eval("lambda d: " + pexpr, {})
    vals = [0.0, 1.0, -1.0, 2.5, -3.25, 0.5, 100.0, 7.0]
    recs = [{rename.get(f, f): rng.choice(vals) for f in ("x", "y", "z")} for _ in range(rng.randint(1, 8))]
    if "floor(" in sexpr and not vector:
        pass

    def call_str(u, r):
        if rep == "dict":
            return u(r)
        if rep == "attr":
            return u(AttrRecord(r))
        if rep == "scalar":
            return u(r["x"])
        raise AssertionError

    if not vector:
        u = UserFcn(sexpr)
        if rng.random() < 0.3:
            # many different expressions carry the same explicit name in one process: the name identifies nothing
            from histogrammar.util import named

            u = named("q", sexpr)
            counters["expressions_sharing_a_name"] = 1
        for r in recs:
            try:
                want = pyf(r)
                werr = None
            except Exception as e:  # noqa: BLE001
                want, werr = None, e
            try:
                got = call_str(u, r)
                gerr = None
            except Exception as e:  # noqa: BLE001
                got, gerr = None, e
            counters["expr_evaluations"] = counters.get("expr_evaluations", 0) + 1
            if (werr is None) != (gerr is None):
                if "x" not in sexpr and rep == "scalar":
                    continue  # constant expression on a bare scalar: nothing to bind
                failures.append(C.fail(None, "string expression `%s` on a %s record: %s, the Python function: %s" % (sexpr, rep, "raised %s: %s" % (type(gerr).__name__, str(gerr)[:100]) if gerr else "returned %r" % (got,), "raised %s" % type(werr).__name__ if werr else "returned %r" % (want,)), record=S.jsonable(r), **wit))
                break
            if werr is None and not (_same_result(want, got) or (isinstance(want, (int, float, bool, np.generic)) and isinstance(got, (int, float, bool, np.generic)) and (want == got or (want != want and got != got)))):
                failures.append(C.fail(None, "string expression `%s` on a %s record evaluates to %r, the Python function to %r" % (sexpr, rep, got, want), record=S.jsonable(r), **wit))
                break

    # twin aggregators
    if rep in ("dict", "vector") and not failures:
        is_bool = sexpr.startswith("(not") or any(sexpr.startswith("(") and (" %s " % op) in sexpr[: len(sexpr)] and False for op in ())
        makers = {
            "Sum": lambda q: hg.Sum(q),
            "Average": lambda q: hg.Average(q),
            "Bin": lambda q: hg.Bin(5, -10.0, 10.0, q, hg.Count(), hg.Count(), hg.Count(), hg.Count()),
            "Select": lambda q: hg.Select(q, hg.Count()),
            "SparselyBin": lambda q: hg.SparselyBin(2.0, q, hg.Count(), hg.Count()),
            "Minimize": lambda q: hg.Minimize(q),
        }
        name = rng.choice(sorted(makers))
        a, b = makers[name](sexpr), makers[name](eval("lambda d: " + pexpr, {}))
        try:
            if vector:
                data1 = {f: np.array([r[f] for r in recs], dtype=float) for f in ("x", "y", "z")}
                data2 = {f: v.copy() for f, v in data1.items()}
                ws = np.array([rng.choice([1.0, 0.5, 2.0]) for _ in recs])
                a.fill.numpy(data1, ws)
                b.fill.numpy(data2, ws.copy())
            else:
                for r in recs:
                    w = rng.choice([1.0, 0.5, 2.0])
                    a.fill(r, w)
                    b.fill(dict(r), w)
        except Exception as e:  # noqa: BLE001
            # the two forms must fail alike: run them separately to tell
            ea = eb = None
            a2, b2 = makers[name](sexpr), makers[name](eval("lambda d: " + pexpr, {}))
            for agg, tag in ((a2, "a"), (b2, "b")):
                try:
                    if vector:
                        agg.fill.numpy({f: np.array([r[f] for r in recs], dtype=float) for f in ("x", "y", "z")})
                    else:
                        for r in recs:
                            agg.fill(dict(r), 1.0)
                except Exception as e2:  # noqa: BLE001
                    if tag == "a":
                        ea = e2
                    else:
                        eb = e2
            if (ea is None) != (eb is None):
                failures.append(C.fail(None, "%s built from the string `%s` %s while the one built from the function %s" % (name, sexpr, "raised %s: %s" % (type(ea).__name__, str(ea)[:100]) if ea else "filled", "raised %s" % type(eb).__name__ if eb else "filled"), aggregator=name, **wit))
            counters["twin_both_failed"] = 1
        else:
            counters["twin_comparisons"] = 1
            counters["twin:" + ("vector" if vector else "row")] = 1
            d = O.diff(O.observe(a), O.observe(b), 1.0, drop_names=True, exact=True)
            if d:
                failures.append(C.fail(None, "%s filled through the string `%s` differs from the one filled through the equivalent function: %s" % (name, sexpr, C.fmt_diff(d)), aggregator=name, records=[S.jsonable(r) for r in recs], **wit))
    return {
        "digest": C.digest("expr", sexpr, rep, [S.jsonable(r) for r in recs]),
        "nontrivial": counters.get("expr_evaluations", 0) + counters.get("twin_comparisons", 0) > 0,
        "failures": failures[:3],
        "counters": counters,
        "sets": {"expr_reps": {rep}},
        "sample": {"kind": "string expression", "expression": sexpr, "python": "lambda d: " + pexpr, "representation": rep, "records": [S.jsonable(r) for r in recs[:3]]},
    }


def _mixed_case(k, rng, tier):
    """One string-expression function applied to a stream whose records change shape: dict, attribute
    object, bare value, dicts with more or fewer fields.  Every call is compared with the Python function
    on the same field values; a record that lacks a field must fail in both forms."""
    from histogrammar.util import UserFcn

    multi = k % 2 == 1
    fields = ["x", "y"] if multi else ["x"]
    sexpr, pexpr = _gen_expr(rng, rng.randint(1, 3), False, fields)
    if "x" not in sexpr:
        sexpr, pexpr = "(x + %s)" % sexpr, "(d['x'] + %s)" % pexpr
    pyf = eval("lambda d: " + pexpr, {})
    u = UserFcn(sexpr)
    vals = [0.0, 1.0, -1.0, 2.5, -3.25, 0.5, 100.0, 7.0]
    failures = []
    counters = {"mixed_sequences": 1}
    log = []
    shapes = ["dict", "attr", "dict+extra", "dict-missing"] + ([] if multi else ["scalar", "scalar"])
    for j in range(rng.randint(3, 12)):
        shape = rng.choice(shapes)
        r = {f: rng.choice(vals) for f in fields}
        if shape == "dict":
            arg = dict(r)
        elif shape == "attr":
            arg = AttrRecord(r)
        elif shape == "dict+extra":
            arg = dict(r, z=rng.choice(vals), other=1.0)
        elif shape == "dict-missing":
            arg = {"z": 1.0} if not multi else {"x": r["x"]}
            r = None
        else:
            arg = r["x"]
        log.append([shape, S.jsonable(r)])
        try:
            got = u(arg)
            gerr = None
        except Exception as e:  # noqa: BLE001
            got, gerr = None, e
        counters["mixed_calls"] = counters.get("mixed_calls", 0) + 1
        counters["mixed_calls:" + shape] = counters.get("mixed_calls:" + shape, 0) + 1
        if r is None:
            r = arg  # the incomplete record itself: the Python function fails on it exactly when the field is read
        try:
            want = pyf(r)
            werr = None
        except Exception as e:  # noqa: BLE001
            want, werr = None, e
        if (werr is None) != (gerr is None):
            failures.append(C.fail(None, "string expression `%s`, call %d (%s record %r) of a mixed stream: %s, the Python function: %s" % (sexpr, j, shape, r, "raised %s: %s" % (type(gerr).__name__, str(gerr)[:100]) if gerr else "returned %r" % (got,), "raised %s" % type(werr).__name__ if werr else "returned %r" % (want,)), calls=log, expression=sexpr))
            break
        if werr is None and not (want == got or (want != want and got != got)):
            failures.append(C.fail(None, "string expression `%s`, call %d (%s record %r) of a mixed stream returned %r, the Python function returns %r" % (sexpr, j, shape, r, got, want), calls=log, expression=sexpr))
            break
    return {
        "digest": C.digest("mixed", sexpr, log),
        "nontrivial": counters.get("mixed_calls", 0) > 1,
        "failures": failures,
        "counters": counters,
        "sets": {"expr_reps": {"mixed"}},
        "sample": {"kind": "string expression on a stream of changing record shapes", "expression": sexpr, "calls": log[:6]},
    }


def run_case(i, rng, tier):
    m = i % 10
    if m == 0:
        return _orders_case(i // 10, rng) if (i // 10) % 2 == 0 else _mixed_case(i // 20, rng, tier)
    if m in (1, 2, 3, 4, 5):
        return _shadow_case(i // 10 * 5 + (m - 1), rng)
    return _expr_case(i // 10 * 4 + (m - 6), rng, tier)


def conclusive(agg):
    out = []
    for u in ("lambda", "def", "string", "nested-def"):
        if u not in agg.sets.get("underlying", ()):
            out.append("wrapper orders never built on a " + u)
    for c in ("orders_built", "second_name_rejected", "shadow_calls:same", "shadow_calls:equal", "shadow_calls:different", "expr_rep:dict", "expr_rep:attr", "expr_rep:scalar", "expr_rep:vector", "twin:row", "twin:vector", "mixed_calls:dict", "mixed_calls:attr", "mixed_calls:scalar", "mixed_calls:dict-missing"):
        if not agg.counters.get(c):
            out.append("never exercised: " + c)
    return out
