"""C13 - derived views (bin edges, centres, entries, grids, projections) agree with fill.

Monitor: for Bin, SparselyBin, CentrallyBin and IrregularlyBin over a configuration sweep (non-dyadic
widths, large offsets, negative sparse indexes) and random fill sets:
 * full range: len(bin_edges) == num_bins + 1 == len(bin_centers) + 1 == len(bin_entries) + 1,
   edges[i] <= centers[i] <= edges[i+1], bin_width consistent with the edges;
 * probe fill: a value x is filled into a copy, the bin that grew is learnt from the before/after
   entries vector (the partition fill really uses) and must satisfy edges[i] <= x < edges[i+1] (within
   the rounding band of an edge) and bin_entries(xvalues=[x]) == [that bin's entries];
 * sub-ranges (lo, hi): the four accessors agree with each other, the returned edges are a contiguous
   run of the full-range edges, the entries are the corresponding slice, and the run covers [lo, hi];
 * 2-D: xy_ranges_grid, project_on_x/y and hist_numpy.get_2dgrid of Bin x Bin, SparselyBin x
   SparselyBin and IrregularlyBin x IrregularlyBin cell by cell against the weights filled in range;
 * Categorize: bin_labels, bin_entries(labels), mpv, n_bins against the bins.
"""

import math

import numpy as np

from .. import env, observe as O, spec as S
from . import common as C
from .c05 import _gen_config, _edges, _tree, _vector

ID = "C13"
LEVEL = "exploration"
TECHNIQUE = "consistency monitor on accessor results + probe fills locating the bin fill really uses (before/after entries vector)"
RULE = (
    "case = one random binning configuration (as in the C05 sweep) + fill set of 0..20 values; probes = every edge +-0..3 ulp, bin "
    "midpoints, out-of-range values, NaN/inf; sub-ranges with ends on edges, between edges and +-1..3 ulp of edges; every 4th case "
    "a 2-D histogram, every 7th a Categorize. distinct = digest(configuration, fills); non-trivial = >=1 accessor consistency "
    "relation evaluated on a filled histogram"
    ' Fills happen row-wise or in vectorised chunks with every view read (and discarded) in between.'
)
ASSUMPTIONS = [
    "a probe within 4 ulp of an edge may be reported on either side of it (rounding band); elsewhere containment is exact",
    "returned sub-range edges are matched to full-range edges within 4 ulp / 1e-9 relative (both are computed by different linspace calls)",
    "SparselyBin accessors are not called on histograms spanning more than 5000 bins (dense materialisation; a resource matter)",
    "configurations whose bin width / centre spacing is below 16 ulp of their offset are not generated (the partition itself is not representable)",
    "a sub-range end within rounding distance of an edge may be treated as on or off that edge, provided all four accessors describe the same slice",
]
FLOOR = 200

REQUIRED = [
    "primitives.bin:Bin.bin_edges",
    "primitives.bin:Bin.bin_centers",
    "primitives.bin:Bin.bin_entries",
    "primitives.bin:Bin.num_bins",
    "primitives.bin:Bin.bin_width",
    "primitives.sparselybin:SparselyBin.bin_edges",
    "primitives.sparselybin:SparselyBin.bin_centers",
    "primitives.sparselybin:SparselyBin.bin_entries",
    "primitives.sparselybin:SparselyBin.num_bins",
    "primitives.sparselybin:SparselyBin._bin_range",
    "primitives.centrallybin:CentrallyBin.bin_edges",
    "primitives.centrallybin:CentrallyBin.bin_centers",
    "primitives.centrallybin:CentrallyBin.bin_entries",
    "primitives.centrallybin:CentrallyBin.num_bins",
    "primitives.irregularlybin:IrregularlyBin.bin_edges",
    "primitives.irregularlybin:IrregularlyBin.bin_centers",
    "primitives.irregularlybin:IrregularlyBin.bin_entries",
    "primitives.irregularlybin:IrregularlyBin.num_bins",
    "primitives.categorize:Categorize.bin_labels",
    "primitives.categorize:Categorize.bin_entries",
    "plot.hist_numpy:get_2dgrid",
    "plot.hist_numpy:prepare_2dgrid",
    "plot.hist_numpy:set_2dgrid",
    "plot.matplotlib:TwoDimensionallyHistogramMethods.xy_ranges_grid",
    "plot.matplotlib:TwoDimensionallyHistogramMethods.project_on_x",
    "plot.matplotlib:SparselyTwoDimensionallyHistogramMethods.xy_ranges_grid",
    "plot.matplotlib:IrregularlyTwoDimensionallyHistogramMethods.xy_ranges_grid",
]


def plan(tier):
    return 8000 if tier == "quick" else 80000


def budget(tier):
    return 75 if tier == "quick" else 600


def setup(tier):
    C.setup_probes()


def _near(a, b, ulps=4):
    if a == b:
        return True
    if math.isinf(a) or math.isinf(b) or math.isnan(a) or math.isnan(b):
        return False
    return abs(a - b) <= ulps * max(math.ulp(a), math.ulp(b)) or abs(a - b) <= 1e-9 * max(abs(a), abs(b))


def _allclose(a, b):
    a, b = np.asarray(a, float), np.asarray(b, float)
    return a.shape == b.shape and bool(np.allclose(a, b, rtol=1e-12, atol=0.0))


def _le(a, b):
    return a <= b or _near(a, b)


VIEW_ACCESSORS = ("bin_edges", "bin_centers", "num_bins", "bin_entries", "bin_width", "mpv", "bin_labels", "xy_ranges_grid", "x_lim", "y_lim", "project_on_x", "project_on_y")
VIEW_PROPERTIES = ("minBin", "maxBin", "num", "low", "high", "n_bins", "n_dim", "size", "keys", "values", "centers", "thresholds", "entries")


def _touch_views(h, counters):
    """Read every derived view of h (results discarded, exceptions swallowed).  Views are reads: taking them in the
    middle of a fill history must not change what they report at the end - a cache that an accessor fills and a later
    fill path forgets to drop shows up as a stale view in the checks that follow."""
    for a in VIEW_ACCESSORS:
        try:
            f = getattr(h, a, None)  # some views (mpv) are properties: reading them is the call
            if callable(f):
                f()
        except Exception:  # noqa: BLE001
            pass
    for a in VIEW_PROPERTIES:
        try:
            getattr(h, a, None)
        except Exception:  # noqa: BLE001
            pass
    counters["views_read_mid_history"] = counters.get("views_read_mid_history", 0) + 1


def _fill_history(h, recs_w, rng, counters):
    """Fill h with (record, weight) pairs: row by row or in vectorised chunks, reading all views in between."""
    mode = rng.choice(["rows", "rows", "numpy", "mixed"])
    j = 0
    n = len(recs_w)
    while j < n:
        step = rng.randint(1, max(1, n // 2))
        chunk = recs_w[j : j + step]
        j += step
        use_np = mode == "numpy" or (mode == "mixed" and rng.random() < 0.5)
        num_only = all(isinstance(v, float) for r, _ in chunk for v in r.values())
        if use_np and num_only:
            data = {f: np.array([r[f] for r, _ in chunk], dtype=float) for f in chunk[0][0]}
            h.fill.numpy(data, np.array([w for _, w in chunk], dtype=float))
            counters["vectorised_chunks"] = counters.get("vectorised_chunks", 0) + 1
        else:
            for r, w in chunk:
                h.fill(r, w)
        if j < n and rng.random() < 0.7:
            _touch_views(h, counters)


def _one_d_case(i, rng, tier):
    hg = env.hg()
    for _ in range(20):
        cfg = _gen_config(rng)
        pts = cfg.get("centers") or cfg.get("edges")
        # centres/thresholds closer than a few ulps cannot be told apart by the arithmetic: degenerate
        if pts and any(b - a <= 16 * max(math.ulp(a), math.ulp(b)) for a, b in zip(pts, pts[1:])):
            continue
        if cfg["k"] == "Bin" and (cfg["high"] - cfg["low"]) / cfg["num"] <= 16 * math.ulp(max(abs(cfg["low"]), abs(cfg["high"]))):
            continue
        if cfg["k"] == "SparselyBin" and cfg["bw"] <= 16 * math.ulp(abs(cfg["origin"]) or 1e-300):
            continue
        break
    k = cfg["k"]
    sp = _tree(cfg, {"k": "Count"})
    edges0 = _edges(cfg)
    fills = []
    for _ in range(rng.randint(0, 20)):
        e = rng.choice(edges0)
        span = (max(edges0) - min(edges0)) or 1.0
        fills.append(e + rng.choice([0.0, 0.25, 0.5, -0.25, 1.5, -1.5]) * span / max(len(edges0), 1))
    if k == "SparselyBin":
        fills = [f for f in fills if abs((f - cfg["origin"]) / cfg["bw"]) < 2000]
    h = S.build(sp)
    counters = {"configs:" + k: 1}
    _fill_history(h, [({"x": float(f)}, rng.choice([1.0, 0.5, 2.0])) for f in fills], rng, counters)
    failures = []
    wit = {"config": cfg, "fills": S.jsonable(fills)}

    def bad(msg, **kw):
        if len(failures) < 4:
            failures.append(C.fail(kw.pop("key", None), msg, **dict(wit, **kw)))

    def acc(lo=None, hi=None):
        e = np.asarray(h.bin_edges(lo, hi), dtype=float)
        c = np.asarray(h.bin_centers(lo, hi), dtype=float)
        n = h.num_bins(lo, hi)
        v = np.asarray(h.bin_entries(lo, hi), dtype=float)
        return e, c, n, v

    # ---- full range
    try:
        e, c, n, v = acc()
    except Exception as ex:  # noqa: BLE001
        bad("full-range accessors raised %s: %s" % (type(ex).__name__, str(ex)[:160]))
        return _ret(cfg, fills, failures, counters, False)
    counters["full_range_checked"] = 1
    if not (len(e) == n + 1 == len(c) + 1 == len(v) + 1):
        bad("full range: len(edges)=%d, num_bins=%d, len(centers)=%d, len(entries)=%d are inconsistent" % (len(e), n, len(c), len(v)))
    else:
        for j in range(n):
            if math.isnan(c[j]):
                continue
            if not (_le(e[j], c[j]) and _le(c[j], e[j + 1])):
                bad("full range: centre %d = %r is not between its edges %r, %r" % (j, c[j], e[j], e[j + 1]))
                break
        if any(not _le(e[j], e[j + 1]) for j in range(n)):
            bad("full range: edges are not increasing: %r" % e[:8].tolist())
        if k in ("Bin", "SparselyBin") and n > 0:
            bw = h.bin_width()
            if not all(_near(e[j + 1] - e[j], bw, 64) or abs((e[j + 1] - e[j]) - bw) <= 1e-9 * max(abs(e[j]), abs(e[j + 1]), abs(bw)) for j in range(n)):
                bad("bin_width() = %r disagrees with the edge spacing %r" % (bw, np.diff(e)[:5].tolist()))
        if k == "IrregularlyBin":
            bw = np.asarray(h.bin_width(), dtype=float)
            fin = e[1:-1]
            if len(bw) != max(len(fin) - 1, 0) or not np.allclose(bw, np.diff(fin)):
                bad("IrregularlyBin.bin_width() %r disagrees with the finite edges %r" % (bw.tolist(), fin.tolist()))
        # entries vector equals the real bins
        real = _vector(sp, h)
        realbins = [real[kk] for kk in real if kk.startswith("bin")]
        if k == "SparselyBin":
            if h.bins:
                lo_i, hi_i = min(h.bins), max(h.bins)
                realbins = [h.bins[j].entries if j in h.bins else 0.0 for j in range(lo_i, hi_i + 1)]
            else:
                realbins = []
        if list(v) != list(realbins):
            bad("bin_entries() %r differs from the bins %r" % (v.tolist()[:8], realbins[:8]))

    # ---- probe fills
    probes_v = []
    for ed in edges0[:10]:
        for d in (-3, -1, 0, 1, 3):
            probes_v.append(S.ulps(float(ed), d))
    for a, b in zip(edges0, edges0[1:]):
        probes_v.append((a + b) / 2.0)
    probes_v += [min(edges0) - 10.0, max(edges0) + 10.0]
    if k == "SparselyBin":
        probes_v = [p for p in probes_v if abs((p - cfg["origin"]) / cfg["bw"]) < 2000]
    # NaN is filled into the nanflow, which is no bin: bin_entries(xvalues=[nan]) has nothing to report for it;
    # +-inf go to the outermost bins or flows (not asked of a sparse histogram, whose index saturates there)
    probes_v.append(float("nan"))
    if k != "SparselyBin":
        probes_v += [float("inf"), float("-inf")]
    for x in probes_v:
        g = h.copy() if k != "SparselyBin" else h.copy()
        before = _vector(sp, g)
        try:
            g.fill({"x": x}, 1.0)
        except Exception:  # noqa: BLE001
            continue  # C05's business
        after = _vector(sp, g)
        grown = [kk for kk in after if after[kk] != before.get(kk, 0.0)]
        if len(grown) != 1:
            continue  # C05's business
        where = grown[0]
        counters["probe_fills"] = counters.get("probe_fills", 0) + 1
        try:
            got = np.asarray(g.bin_entries(xvalues=[x]), dtype=float)
        except Exception as ex:  # noqa: BLE001
            bad("bin_entries(xvalues=[%r]) raised %s: %s" % (x, type(ex).__name__, str(ex)[:160]))
            break
        want = after[where] if where.startswith("bin") else 0.0
        if len(got) != 1 or got[0] != want:
            bad("bin_entries(xvalues=[%r]) = %r, but fill put the value into %s holding %r" % (x, got.tolist(), where, want), probe=S.jsonable(x))
            break
        if where.startswith("bin"):
            try:
                ge = np.asarray(g.bin_edges(), dtype=float)
            except Exception as ex:  # noqa: BLE001
                bad("bin_edges() raised %s after a probe fill" % type(ex).__name__)
                break
            idx = int(where[3:])
            if k == "SparselyBin":
                idx = idx - min(g.bins)
            if idx + 1 < len(ge):
                lo_e, hi_e = ge[idx], ge[idx + 1]
                fin_e = [abs(t) for t in ge if not math.isinf(t)] or [1.0]
                # equal-width binnings report edges through another expression (linspace) than fill uses: a few ulps of
                # slack.  Centre- and threshold-based binnings report the very numbers fill compares with: exact.
                tol_e = 16 * np.finfo(float).eps * max(fin_e) if k in ("Bin", "SparselyBin") else 0.0
                inside = (lo_e <= x < hi_e) or (tol_e > 0 and (abs(x - lo_e) <= tol_e or abs(x - hi_e) <= tol_e))
                if math.isinf(x):
                    inside = (x > 0 and hi_e == x) or (x < 0 and lo_e == x)  # +inf belongs to the bin that reaches up to +inf
                counters["containment_checks"] = counters.get("containment_checks", 0) + 1
                if not inside:
                    bad("fill put %r into bin %d, whose reported edges are [%r, %r)" % (x, idx, lo_e, hi_e), probe=S.jsonable(x))
                    break

    # ---- sub-ranges: library results against a reference slice of the full partition
    if not failures and (n > 0 or k == "SparselyBin"):
        _subranges(k, h, cfg, sp, rng, tier, bad, counters)
    return _ret(cfg, fills, failures, counters, bool(fills))



def _grid(k, h, cfg):
    """(first bin index, edges list, entries list, centres list) of the whole partition of h."""
    if k == "Bin":
        num = cfg["num"]
        ed = [S.bin_edge(cfg, j) for j in range(num + 1)]
        return 0, ed, [v.entries for v in h.values], [(a + b) / 2.0 for a, b in zip(ed, ed[1:])]
    if k == "CentrallyBin":
        cs = [c for c, _ in h.bins]
        mids = [(a + b) / 2.0 for a, b in zip(cs, cs[1:])]
        return 0, [-math.inf] + mids + [math.inf], [v.entries for _, v in h.bins], cs
    if k == "IrregularlyBin":
        th = [t for t, _ in h.bins]
        ed = th + [math.inf]
        return 0, ed, [v.entries for _, v in h.bins], [(a + b) / 2.0 if not (math.isinf(a) and math.isinf(b)) else math.nan for a, b in zip(ed, ed[1:])]
    raise ValueError(k)


def _expected(k, h, cfg, lo, hi, on_edge):
    """(first bin index, number of bins) the sub-range (lo, hi) should select; on_edge(x, edge) decides
    whether the exclusive upper end sits exactly on the lower edge of a bin."""
    if k == "Bin":
        num, low, high = cfg["num"], cfg["low"], cfg["high"]
        a = 0 if lo < low else h.bin(lo)
        if hi >= high:
            b = num - 1
        else:
            b = h.bin(hi)
            if on_edge(hi, S.bin_edge(cfg, b)):
                b -= 1
        return a, b - a + 1
    if k == "SparselyBin":
        a = h.bin(lo)
        b = h.bin(hi)
        if on_edge(hi, cfg["origin"] + cfg["bw"] * b):
            b -= 1
        return a, b - a + 1
    if k == "CentrallyBin":
        cs = [c for c, _ in h.bins]
        mids = [(x + y) / 2.0 for x, y in zip(cs, cs[1:])]
        a = sum(1 for m in mids if lo >= m)
        b = sum(1 for m in mids if hi > m)
        return a, b - a + 1
    th = [t for t, _ in h.bins]
    a = sum(1 for t in th if t <= lo) - 1
    b = sum(1 for t in th if t < hi) - 1
    return max(a, 0), max(b, 0) - max(a, 0) + 1


def _subranges(k, h, cfg, sp, rng, tier, bad, counters):
    eps = np.finfo(float).eps
    if k == "SparselyBin":
        if not h.bins:
            return
        base = [cfg["origin"] + cfg["bw"] * j for j in range(min(h.bins) - 2, max(h.bins) + 4)]
        bw = cfg["bw"]
    else:
        _, base, _, _ = _grid(k, h, cfg)
        bw = (cfg["high"] - cfg["low"]) / cfg["num"] if k == "Bin" else None
    fin = [x for x in base if not math.isinf(x)]
    if len(fin) < 1:
        return
    ends = []
    for x in fin[:14]:
        ends += [x, S.ulps(x, 1), S.ulps(x, -1), S.ulps(x, 3), S.ulps(x, -3)]
    for a, b in zip(fin, fin[1:]):
        ends += [(a + b) / 2.0, a + (b - a) * 0.25]
    if len(fin) == 1:
        ends += [fin[0] - 1.0, fin[0] + 1.0]
    scale = max([abs(x) for x in fin] + [bw or 0.0, 1e-300])
    tol = 16 * eps * scale
    for _ in range(14 if tier == "quick" else 30):
        lo, hi = sorted(rng.sample(ends, 2))
        if not lo < hi:
            continue
        if k == "Bin" and not (lo < cfg["high"] and hi > cfg["low"]):
            continue
        near = any(abs(lo - x) <= 4 * tol or abs(hi - x) <= 4 * tol for x in fin)
        if k == "SparselyBin":
            near = any(abs(((v - cfg["origin"]) / bw) - round((v - cfg["origin"]) / bw)) * bw <= 4 * tol for v in (lo, hi))
        cls = "near-edge" if near else "between-edges"
        counters["subranges:" + cls] = counters.get("subranges:" + cls, 0) + 1
        counters["subranges_checked"] = counters.get("subranges_checked", 0) + 1

        def lib():
            return (
                np.asarray(h.bin_edges(lo, hi), dtype=float),
                np.asarray(h.bin_centers(lo, hi), dtype=float),
                h.num_bins(lo, hi),
                np.asarray(h.bin_entries(lo, hi), dtype=float),
            )

        def want(on_edge):
            a, nn = _expected(k, h, cfg, lo, hi, on_edge)
            if k == "SparselyBin":
                ed = [cfg["origin"] + bw * j for j in range(a, a + nn + 1)]
                en = [h.bins[j].entries if j in h.bins else 0.0 for j in range(a, a + nn)]
                ce = [(x + y) / 2.0 for x, y in zip(ed, ed[1:])]
            else:
                _, ed0, en0, ce0 = _grid(k, h, cfg)
                ed, en, ce = ed0[a : a + nn + 1], en0[a : a + nn], ce0[a : a + nn]
            return nn, ed, en, ce

        def agrees(res, exp):
            se, sc, sn, sv = res
            nn, ed, en, ce = exp
            if not (sn == nn and len(se) == nn + 1 and len(sc) == nn and len(sv) == nn):
                return "num_bins=%d len(edges)=%d len(centers)=%d len(entries)=%d, expected %d bins" % (sn, len(se), len(sc), len(sv), nn)
            for x, y in zip(se, ed):
                if not (x == y or abs(x - y) <= tol):
                    return "edges %r, expected %r" % (se.tolist()[:5], ed[:5])
            if list(sv) != list(en):
                return "entries %r, expected %r" % (sv.tolist()[:6], en[:6])
            for x, y in zip(sc, ce):
                if not (math.isnan(y) or math.isnan(x) or x == y or abs(x - y) <= tol):
                    return "centers %r, expected %r" % (sc.tolist()[:5], ce[:5])
            return None

        exact = lambda x, e: abs(x - e) <= tol  # noqa: E731
        try:
            res = lib()
        except Exception as ex:  # noqa: BLE001
            bad("accessors for the sub-range (%r, %r) raised %s: %s" % (lo, hi, type(ex).__name__, str(ex)[:120]), range=[lo, hi])
            continue
        msg = agrees(res, want(exact))
        if msg is None:
            continue
        if near and k in ("Bin", "SparselyBin"):
            # an end within rounding distance of an edge: either decision about the exclusive upper end is
            # acceptable, as long as the four accessors agree with one and the same slice
            if agrees(res, want(lambda x, e: False)) is None or agrees(res, want(lambda x, e: abs(x - e) <= 64 * tol)) is None:
                counters["subranges:band-accepted"] = counters.get("subranges:band-accepted", 0) + 1
                continue
        bad("sub-range (%r, %r) of %s [%s]: %s" % (lo, hi, k, cls, msg), range=[lo, hi])


def _ret(cfg, fills, failures, counters, nt):
    return {
        "digest": C.digest(cfg, fills),
        "nontrivial": nt,
        "failures": failures,
        "counters": counters,
        "sets": {"config_kinds": {cfg["k"]}},
        "sample": {"kind": "1-D accessors", "config": cfg, "n_fills": len(fills), "fills": S.jsonable(fills[:5])},
    }


def _two_d_case(i, rng, tier):
    hg = env.hg()
    from histogrammar.plot import hist_numpy

    kind = ("Bin", "SparselyBin", "IrregularlyBin")[i % 3]
    qx = lambda d: d["x"]  # noqa: E731
    qy = lambda d: d["y"]  # noqa: E731
    if kind == "Bin":
        nx, ny = rng.randint(1, 5), rng.randint(1, 5)
        xlo, xhi, ylo, yhi = 0.0, float(rng.choice([1, 2, 3])), -1.0, float(rng.choice([1, 2]))
        h = hg.Bin(nx, xlo, xhi, qx, hg.Bin(ny, ylo, yhi, qy, hg.Count(), hg.Count(), hg.Count(), hg.Count()), hg.Count(), hg.Count(), hg.Count())
    elif kind == "SparselyBin":
        # widths and origins also from decimal fractions: n * width + origin is then not exact, and an edge array built
        # by repeated addition (numpy.arange with a float step) need not have the length the grid has
        bwx, bwy = rng.choice([0.5, 1.0, 0.25, 0.7, 0.1, 0.3]), rng.choice([0.5, 1.0, 2.0, 0.7, 0.3])
        ox, oy = rng.choice([0.0, 0.0, 1.0, 0.1, -0.3]), rng.choice([0.0, 0.0, 1.0, 0.1, -0.3])
        h = hg.SparselyBin(bwx, qx, hg.SparselyBin(bwy, qy, hg.Count(), hg.Count(), oy), hg.Count(), ox)
    else:
        ex = sorted(rng.sample([-1.0, 0.0, 0.5, 1.0, 2.0, 3.5], rng.randint(2, 4)))
        ey = sorted(rng.sample([-1.0, 0.0, 0.5, 1.0, 2.0, 3.5], rng.randint(2, 4)))
        h = hg.IrregularlyBin(ex, qx, hg.IrregularlyBin(ey, qy, hg.Count(), hg.Count()), hg.Count())
    # points well away from every possible edge: placement by the reported edges is then unambiguous
    nan, inf = float("nan"), float("inf")
    # weights: dyadic, or (a third of the cases) decimal fractions and a large one - a cell then holds a float64 sum that a
    # narrower storage type of the grid would not reproduce
    wchoice = [1.0, 0.5, 2.0] if rng.random() < 0.67 else [0.1, 0.3, 1.0 / 3, 16777217.0, 0.7]
    pts = [(rng.choice([-0.77, 0.13, 0.31, 0.63, 0.94, 1.41, 1.93, 2.61, -2.03, 5.07, 0.31, 0.94, nan, inf]), rng.choice([-0.93, -0.41, 0.13, 0.61, 0.93, 1.63, -3.03, 4.07, 0.13, 0.61, nan, -inf]), rng.choice(wchoice)) for _ in range(rng.randint(1, 15))]
    if kind == "SparselyBin":
        # +-inf saturates the sparse index: the dense grid over that span cannot be materialised
        pts = [(x if not math.isinf(x) else 0.31, y if not math.isinf(y) else 0.13, w) for x, y, w in pts]
    if kind == "SparselyBin" and not any(not (math.isnan(x) or math.isnan(y)) for x, y, _ in pts):
        # a sparse 2-D histogram without a single datum on both axes has no grid (the accessors say so by raising)
        pts.append((0.31, 0.13, 1.0))
    counters = {"two_d:" + kind: 1}
    _fill_history(h, [({"x": float(x), "y": float(y)}, w) for x, y, w in pts], rng, counters)
    failures = []
    wit = {"kind": kind, "points": pts}

    def bad(msg):
        if len(failures) < 3:
            failures.append(C.fail(None, msg, **wit))

    try:
        xr, yr, grid = h.xy_ranges_grid()
        px, py = h.project_on_x(), h.project_on_y()
        xl, yl, g2 = hist_numpy.get_2dgrid(h)
    except Exception as ex_:  # noqa: BLE001
        bad("2-D accessors raised %s: %s" % (type(ex_).__name__, str(ex_)[:160]))
        return {"digest": C.digest(kind, pts), "nontrivial": False, "failures": failures, "counters": counters, "sets": {}}
    xr, yr = np.asarray(xr, float), np.asarray(yr, float)
    counters["grids_checked"] = 1
    if grid.shape != (len(yr) - 1, len(xr) - 1):
        bad("xy_ranges_grid: grid shape %r does not match %d x-edges and %d y-edges" % (grid.shape, len(xr), len(yr)))
    else:
        want = np.zeros_like(grid)
        for x, y, w in pts:
            if math.isnan(x) or math.isnan(y):
                continue
            ix = np.searchsorted(xr, x, side="right") - 1
            iy = np.searchsorted(yr, y, side="right") - 1
            if 0 <= ix < len(xr) - 1 and 0 <= iy < len(yr) - 1:
                want[iy, ix] += w
        if not np.allclose(want, grid, rtol=1e-12, atol=0.0):  # (vectorised chunks add the weights of a cell in another order)
            bad("xy_ranges_grid differs from the in-range weights: %r vs %r" % (grid.tolist(), want.tolist()))
        if kind != "IrregularlyBin" and not _allclose(np.asarray(px.bin_entries(), float), grid.sum(axis=0)):
            bad("project_on_x %r differs from the column sums %r" % (np.asarray(px.bin_entries()).tolist(), grid.sum(axis=0).tolist()))
        if kind != "IrregularlyBin" and not _allclose(np.asarray(py.bin_entries(), float), grid.sum(axis=1)):
            bad("project_on_y %r differs from the row sums %r" % (np.asarray(py.bin_entries()).tolist(), grid.sum(axis=1).tolist()))
        if kind == "IrregularlyBin":
            # IrregularlyBin has no under/overflow: its first and last bins reach to -inf / +inf and take part
            # in the projections; only the grid (a plot) shows the finite bins
            tx = [t for t, _ in h.bins]
            ty = [t for t, _ in h.bins[0][1].bins]
            wx = [0.0] * len(tx)
            wy = [0.0] * len(ty)
            for x, y, w in pts:
                if math.isnan(x) or math.isnan(y):
                    continue  # NaN goes to a nanflow, which no projection bin holds
                wx[sum(1 for t in tx if t <= x) - 1] += w
                wy[sum(1 for t in ty if t <= y) - 1] += w
            if not _allclose(np.asarray(px.bin_entries(), float), wx):
                bad("project_on_x %r differs from the weights per x bin %r" % (np.asarray(px.bin_entries()).tolist(), wx))
            if not _allclose(np.asarray(py.bin_entries(), float), wy):
                bad("project_on_y %r differs from the weights per y bin %r" % (np.asarray(py.bin_entries()).tolist(), wy))
        if kind == "Bin" and not np.array_equal(g2, grid):
            bad("hist_numpy.get_2dgrid %r differs from xy_ranges_grid %r" % (g2.tolist(), grid.tolist()))
        if kind != "Bin" and not math.isclose(float(np.sum(g2)), float(sum(w for x, y, w in pts if not (math.isnan(x) or math.isnan(y)))), rel_tol=1e-12):
            bad("hist_numpy.get_2dgrid total %r differs from the total filled weight" % float(np.sum(g2)))
    return {
        "digest": C.digest(kind, pts),
        "nontrivial": True,
        "failures": failures,
        "counters": counters,
        "sets": {"two_d_kinds": {kind}},
        "sample": {"kind": "2-D grid", "histogram": kind, "points": pts[:5]},
    }


def _make_axis(hg, rng, kind, q, value):
    if kind == "Bin":
        return hg.Bin(rng.choice([2, 3, 5]), -1.0, rng.choice([1.0, 2.0]), q, value, hg.Count(), hg.Count(), hg.Count())
    if kind == "SparselyBin":
        return hg.SparselyBin(rng.choice([0.5, 1.0]), q, value, hg.Count())
    if kind == "CentrallyBin":
        return hg.CentrallyBin(sorted(rng.sample([-1.0, 0.0, 0.5, 1.0, 2.0], rng.randint(2, 4))), q, value, hg.Count())
    if kind == "IrregularlyBin":
        return hg.IrregularlyBin(sorted(rng.sample([-1.0, 0.0, 0.5, 1.0, 2.0], rng.randint(1, 3))), q, value, hg.Count())
    return hg.Categorize(q, value)


def _key_of(kind, h1, before_keys):
    """Library key (as hist_numpy.prepare_2dgrid keys it) of the bin of 1-D locator h1 that just received a fill."""
    if kind == "Bin":
        for j, v in enumerate(h1.values):
            if v.entries != before_keys.get(j, 0.0):
                return j
        return None
    if kind in ("SparselyBin", "Categorize"):
        for k, v in h1.bins.items():
            if v.entries != before_keys.get(k, 0.0):
                return k
        return None
    for c, v in h1.bins:
        if v.entries != before_keys.get(c, 0.0):
            return c
    return None


def _snap(kind, h1):
    if kind == "Bin":
        return {j: v.entries for j, v in enumerate(h1.values)}
    if kind in ("SparselyBin", "Categorize"):
        return {k: v.entries for k, v in h1.bins.items()}
    return {c: v.entries for c, v in h1.bins}


def _two_d_mixed_case(i, rng, tier):
    """hist_numpy.get_2dgrid on any pair of binning kinds: every cell must hold the weight of the points whose
    x and y land - according to 1-D locator histograms of the same configuration - in that pair of bins."""
    hg = env.hg()
    from histogrammar.plot import hist_numpy

    kinds = ["Bin", "SparselyBin", "CentrallyBin", "IrregularlyBin", "Categorize"]
    kx, ky = rng.choice(kinds), rng.choice(kinds)
    state = rng.getstate()
    qx = (lambda d: d["cx"]) if kx == "Categorize" else (lambda d: d["x"])
    qy = (lambda d: d["cy"]) if ky == "Categorize" else (lambda d: d["y"])
    inner = _make_axis(hg, rng, ky, qy, hg.Count())
    rng2 = __import__("random").Random(0)
    rng2.setstate(state)
    ly = _make_axis(hg, rng2, ky, qy, hg.Count())  # same configuration as `inner`
    state = rng.getstate()
    h = _make_axis(hg, rng, kx, qx, inner)
    rng2.setstate(state)
    lx = _make_axis(hg, rng2, kx, qx, hg.Count())
    nan = float("nan")
    pts = []
    for _ in range(rng.randint(1, 14)):
        pts.append({"x": rng.choice([-0.77, 0.13, 0.31, 0.63, 0.94, 1.41, 1.93, -2.03, 5.07, nan]), "y": rng.choice([-0.93, -0.41, 0.13, 0.61, 0.93, 1.63, -3.03, 4.07, nan]), "cx": rng.choice(["a", "b", "c"]), "cy": rng.choice(["u", "v"]), "w": rng.choice([1.0, 0.5, 2.0])})
    want = {}
    for p_ in pts:
        h.fill(p_, p_["w"])
        bx, by = _snap(kx, lx), _snap(ky, ly)
        lx.fill(p_, p_["w"])
        ly.fill(p_, p_["w"])
        keyx, keyy = _key_of(kx, lx, bx), _key_of(ky, ly, by)
        if keyx is not None and keyy is not None:
            want[(keyx, keyy)] = want.get((keyx, keyy), 0.0) + p_["w"]
    failures = []
    counters = {"two_d_mixed": 1, "two_d_mixed:%s" % kx: 1}
    wit = {"x_kind": kx, "y_kind": ky, "points": [S.jsonable(p_) for p_ in pts]}
    if not want:
        return {"digest": C.digest("2dm", wit), "nontrivial": False, "failures": [], "counters": counters, "sets": {}}
    try:
        xkeys, ykeys = hist_numpy.prepare_2dgrid(h)
        grid = hist_numpy.set_2dgrid(h, xkeys, ykeys)
        xl, yl, g2 = hist_numpy.get_2dgrid(h)
    except Exception as e:  # noqa: BLE001
        failures.append(C.fail(None, "hist_numpy 2-D grid of %s x %s raised %s: %s" % (kx, ky, type(e).__name__, str(e)[:160]), **wit))
        return {"digest": C.digest("2dm", wit), "nontrivial": False, "failures": failures, "counters": counters, "sets": {}}
    got = {}
    for a, xk in enumerate(xkeys):
        for b, yk in enumerate(ykeys):
            if grid[b, a] != 0.0:
                got[(xk, yk)] = float(grid[b, a])
    if got != {k: v for k, v in want.items() if v != 0.0}:
        failures.append(C.fail(None, "hist_numpy grid of %s x %s holds %r, the points filled give %r" % (kx, ky, sorted(got.items(), key=repr)[:6], sorted(want.items(), key=repr)[:6]), **wit))
    if not np.array_equal(np.asarray(g2), grid) or len(xl) != len(xkeys) or len(yl) != len(ykeys):
        failures.append(C.fail(None, "get_2dgrid disagrees with prepare_2dgrid/set_2dgrid", **wit))
    return {
        "digest": C.digest("2dm", wit),
        "nontrivial": True,
        "failures": failures,
        "counters": counters,
        "sets": {"two_d_pairs": {kx + "x" + ky}},
        "sample": {"kind": "2-D grid (hist_numpy) of mixed binnings", "x": kx, "y": ky, "points": wit["points"][:4]},
    }


def _categorize_case(i, rng, tier):
    hg = env.hg()
    h = hg.Categorize(lambda d: d["c"], hg.Count())
    cats = [rng.choice(S.CATEGORIES) for _ in range(rng.randint(1, 12))]
    if i % 3 == 0:
        # a boolean-valued quantity (all categories booleans: mixed key types are the subject of the C04 known finding)
        cats = [rng.random() < 0.5 for _ in cats]
    ws = [rng.choice([1.0, 0.5, 2.0]) for _ in cats]
    for c, w in zip(cats, ws):
        h.fill({"c": c}, w)
    failures = []
    want = {}
    for c, w in zip(cats, ws):
        want[c] = want.get(c, 0.0) + w
    labels = list(h.bin_labels())
    ent = list(np.asarray(h.bin_entries(), float))
    wit = {"categories": cats, "weights": ws}
    if sorted(labels) != sorted(want) or h.n_bins != len(want):
        failures.append(C.fail(None, "bin_labels %r / n_bins %r disagree with the filled categories %r" % (labels, h.n_bins, sorted(want)), **wit))
    elif ent != [want[lab] for lab in labels]:
        failures.append(C.fail(None, "bin_entries() %r does not match the labels %r with weights %r" % (ent, labels, want), **wit))
    else:
        q = rng.sample(sorted(want), min(2, len(want))) + ["absent-label"]
        if isinstance(cats[0], bool):
            q = [x for x in labels][:2] + ["absent-label"]  # the labels as bin_labels() hands them out (numpy booleans)
        got = list(np.asarray(h.bin_entries(labels=q), float))
        if got != [want.get(x, 0.0) for x in q]:
            failures.append(C.fail(None, "bin_entries(labels=%r) = %r, expected %r" % (q, got, [want.get(x, 0.0) for x in q]), **wit))
        best = max(want.values())
        mp = h.mpv
        mpw = want.get(mp, want.get(str(mp))) if not isinstance(cats[0], bool) else want.get(bool(mp))
        if mpw != best:
            failures.append(C.fail(None, "mpv %r holds %r, the maximum is %r" % (mp, mpw, best), **wit))
    return {"digest": C.digest("cat", cats, ws), "nontrivial": True, "failures": failures, "counters": {"categorize_cases": 1}, "sets": {}, "sample": {"kind": "Categorize views", "categories": cats[:6]}}


def run_case(i, rng, tier):
    if i % 7 == 6:
        return _categorize_case(i, rng, tier)
    if i % 4 == 3:
        return _two_d_case(i // 4, rng, tier) if (i // 4) % 2 == 0 else _two_d_mixed_case(i // 8, rng, tier)
    return _one_d_case(i, rng, tier)


def conclusive(agg):
    out = []
    for k in ("Bin", "SparselyBin", "CentrallyBin", "IrregularlyBin"):
        if not agg.counters.get("configs:" + k):
            out.append("no configuration of kind " + k)
    for c in ("full_range_checked", "probe_fills", "containment_checks", "subranges_checked", "subranges:near-edge", "subranges:between-edges", "two_d:Bin", "two_d:SparselyBin", "two_d:IrregularlyBin", "categorize_cases", "two_d_mixed"):
        if not agg.counters.get(c):
            out.append("never exercised: " + c)
    return out
