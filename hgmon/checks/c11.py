"""C11 - pickling preserves content, equality and fillability.

Monitor: c = pickle.loads(pickle.dumps(h, protocol)) for a reached state h (live, after merges, or
reloaded from JSON), every quantity kind (lambda, def, string expression, named, cached,
named+cached).  Oracles: c == h and h == c; identical documents; h's text unchanged by the dump
(frame); then a lock-step differential: the same continuation (row fills, vectorised fills, +, +=,
*f, another pickle round trip) is applied to the clone and to the original and the two documents
must stay textually identical after every step - both execute the same code on the same inputs - and
equal to the ghost model.
"""

import json
import pickle

from .. import batch as B, env, observe as O, refmodel as R, spec as S
from . import common as C

ID = "C11"
LEVEL = "exploration"
TECHNIQUE = "lock-step differential monitor: identical continuations applied to a pickle clone and to its original, documents compared after every step"
RULE = (
    "case = (tree spec from the stratified table then random trees with all six quantity flavours, state reached by fill / merge / "
    "JSON reload, pickle protocol 2..5, continuation of 1..10 steps from {fill, fill.numpy, + other, += other, *f, re-pickle}). "
    "distinct = digest(spec, stream, protocol, continuation); non-trivial = clone compared equal and >=1 continuation step was "
    "applied to both and compared"
    ' Every 10th case the state is assembled by Stack.build / Fraction.build (merged with a copy of the original or an independently built one); trees of one-variable string expressions are also filled with bare numbers; records lacking a field are filled in lock-step.'
)
ASSUMPTIONS = [
    "quantity functions are self-contained (no globals), the supported case for lambdas",
    "documents compared as canonical JSON text after each lock-step step",
]
FLOOR = 200

REQUIRED = [
    "defs:Container.__getstate__",
    "defs:Container.__setstate__",
    "util:UserFcn.__reduce__",
    "util:deserializeString",
    "util:deserializeFunction",
    "primitives.select:Select.__getattr__",
]


def plan(tier):
    return 6000 if tier == "quick" else 60000


def budget(tier):
    return 75 if tier == "quick" else 600


def setup(tier):
    C.setup_probes()


def _np_safe(sp, recs):
    sum_fields = {nd["f"] for _, nd in S.walk(sp) if nd["k"] == "Sum"}
    out = []
    for r in recs:
        r = dict(r)
        if r["c"] is None or isinstance(r["c"], float):
            r["c"] = "NaN"
        for f in sum_fields:
            if r[f] != r[f]:
                r[f] = 0.5
        out.append(r)
    return out


BUILTIN_QUANTITIES = [
    "lambda d: round(d['x']) + abs(d['x']) + min(d['x'], 1) + max(d['x'], -1) + int(d['x'] > 0)",
    "lambda d: round(d['x'], 1) * pow(2, 1) + divmod(abs(d['x']), 2)[1] + float(bool(d['x']))",
    "lambda d: sum(sorted([d['x'], 1.0, -d['x']])[:2]) + len(str(int(d['x']))) + (1 if any([d['x'] > 1]) else 0) + (1 if all([d['x'] < 4]) else 0)",
    "lambda d: float(round(d['x'] * 2)) / 2 + len(list(range(int(abs(d['x']))))) + len(tuple(zip([1], [2]))) + len(dict(a=1)) + len(set([1, 1])) + len(list(map(abs, [d['x']]))) + len(list(filter(None, [d['x']]))) + len(list(enumerate([d['x']])))",
    "lambda d: (hash(1) == 1) + isinstance(d['x'], float) + (repr(1) == '1') + (type(d['x']).__name__ == 'float') + getattr(d['x'], 'real', 0) + (ord(chr(65)) == 65) + round(d['x'])",
]


def _builtin_case(i, rng, tier):
    """A quantity written with Python's built-ins (round, abs, min, max, int, pow, divmod, sorted, len ...): the clone's
    rebuilt function must resolve every one of them to the same built-in (its globals are not the user's module)."""
    hg = env.hg()
    src = BUILTIN_QUANTITIES[(i // 20) % len(BUILTIN_QUANTITIES)]
    failures = []
    counters = {"builtin_quantity_cases": 1}
    vals = [0.5, 1.5, 2.5, -0.5, -1.5, -2.5, 0.125, 0.375, 3.0, 0.0, -0.0, 1.0, 2.675, 1e-9]
    wit = {"quantity": src}

    def make():
        q1, q2 = eval(src, {}), eval(src, {})
        return hg.UntypedLabel(s=hg.Sum(q1), b=hg.Bin(8, -4.0, 12.0, q2, hg.Count(), hg.Count(), hg.Count(), hg.Count()))

    h = make()
    for _ in range(rng.randint(0, 3)):
        h.fill({"x": rng.choice(vals)}, 1.0)
    proto = rng.choice([2, 3, 4, 5])
    try:
        c = pickle.loads(pickle.dumps(h, proto))
    except Exception as e:  # noqa: BLE001
        failures.append(C.fail(None, "pickle round trip raised %s: %s" % (type(e).__name__, str(e)[:200]), **wit))
        return {"digest": C.digest("builtin", src, proto), "nontrivial": False, "failures": failures, "counters": counters, "sets": {}}
    steps = []
    for _ in range(rng.randint(3, 10)):
        v, w = rng.choice(vals), rng.choice([1.0, 0.5, 2.0])
        res = []
        for x_ in (h, c):
            try:
                x_.fill({"x": v}, w)
                res.append(None)
            except Exception as e:  # noqa: BLE001
                res.append(type(e).__name__)
        steps.append([v, w])
        counters["lockstep_comparisons"] = counters.get("lockstep_comparisons", 0) + 1
        if res[0] != res[1] or O.text(h) != O.text(c):
            d = O.diff(json.loads(O.text(h)), json.loads(O.text(c)), 0.0, exact=True) if res[0] == res[1] else []
            failures.append(C.fail(None, "a quantity using built-ins: after filling x=%r the original %s and the clone %s%s" % (v, res[0] or "succeeded", res[1] or "succeeded", ": " + C.fmt_diff(d) if d else ""), steps=steps, **wit))
            break
    return {"digest": C.digest("builtin", src, proto, steps), "nontrivial": True, "failures": failures, "counters": counters, "sets": {}, "sample": {"kind": "built-in functions in the quantity", "quantity": src, "fills": steps[:4]}}


def _module_def_case(i, rng, tier):
    """A quantity that is a top-level def of an importable module whose name is rebound after the aggregator was booked
    (the helper name reused for the next histogram, `f = named("n", f)`, `f = cached(f)`): the clone must still compute
    what the original computes - a function pickled by reference would come back as whatever the name means now."""
    import sys
    import types

    hg = env.hg()
    from histogrammar.util import cached, named

    variant = ("redefined", "redefined-same-code-shape", "named-rebind", "cached-rebind", "deleted", "untouched")[(i // 20) % 6]
    modname = "hgmon_c11_userdefs_%d" % i
    mod = types.ModuleType(modname)
    sys.modules[modname] = mod
    failures = []
    counters = {"module_def_cases": 1, "module_def:" + variant: 1}
    wit = {"variant": variant}
    vals = [0.5, 1.5, 2.5, -0.5, 3.0, 0.0, 7.25, 11.0]
    try:
        exec("def quantity(d):\n    return d['x'] * 2 + 1\n", mod.__dict__)
        q = mod.quantity
        h = hg.UntypedLabel(s=hg.Sum(q), b=hg.Bin(8, -4.0, 28.0, q, hg.Count(), hg.Count(), hg.Count(), hg.Count()))
        for _ in range(rng.randint(0, 3)):
            h.fill({"x": rng.choice(vals)}, 1.0)
        if variant == "redefined":
            exec("def quantity(d):\n    return -d['x']\n", mod.__dict__)
        elif variant == "redefined-same-code-shape":
            exec("def quantity(d):\n    return d['x'] * 3 + 1\n", mod.__dict__)
        elif variant == "named-rebind":
            mod.quantity = named("heavy", mod.quantity)
        elif variant == "cached-rebind":
            mod.quantity = cached(mod.quantity)
        elif variant == "deleted":
            del mod.quantity
        proto = rng.choice([2, 3, 4, 5])
        before = O.text(h)
        try:
            c = pickle.loads(pickle.dumps(h, proto))
        except Exception as e:  # noqa: BLE001
            failures.append(C.fail(None, "pickle round trip of a tree whose quantity is a module-level def (%s) raised %s: %s" % (variant, type(e).__name__, str(e)[:200]), **wit))
            return {"digest": C.digest("moddef", variant, i % 20, proto), "nontrivial": False, "failures": failures, "counters": counters, "sets": {}}
        try:
            if not (c == h and h == c) or O.text(c) != before or O.text(h) != before:
                failures.append(C.fail(None, "the clone of a tree whose quantity is a module-level def (%s) is not equal to the original" % variant, **wit))
        except Exception as e:  # noqa: BLE001
            failures.append(C.fail(None, "comparing clone and original (module-level def, %s) raised %s: %s" % (variant, type(e).__name__, str(e)[:160]), **wit))
        steps = []
        for _ in range(rng.randint(3, 8)):
            if failures:
                break
            v, w = rng.choice(vals), rng.choice([1.0, 0.5, 2.0])
            res = []
            for x_ in (h, c):
                try:
                    x_.fill({"x": v}, w)
                    res.append(None)
                except Exception as e:  # noqa: BLE001
                    res.append(type(e).__name__)
            steps.append([v, w])
            counters["lockstep_comparisons"] = counters.get("lockstep_comparisons", 0) + 1
            if res[0] != res[1] or O.text(h) != O.text(c):
                d = O.diff(json.loads(O.text(h)), json.loads(O.text(c)), 0.0, exact=True) if res[0] == res[1] else []
                failures.append(C.fail(None, "module-level def quantity (%s): after filling x=%r the original %s and the clone %s%s" % (variant, v, res[0] or "succeeded", res[1] or "succeeded", ": " + C.fmt_diff(d) if d else ""), steps=steps, **wit))
        return {"digest": C.digest("moddef", variant, proto, steps), "nontrivial": True, "failures": failures, "counters": counters, "sets": {}, "sample": {"kind": "module-level def quantity", "variant": variant, "fills": steps[:4]}}
    finally:
        sys.modules.pop(modname, None)


def run_case(i, rng, tier):
    from histogrammar.defs import Factory

    if i % 20 == 13:
        return _builtin_case(i, rng, tier)
    if i % 20 == 7:
        return _module_def_case(i, rng, tier)

    label, sp = C.pick_spec(i, rng, tier)
    force = None
    bare = False
    if i % 15 == 11 and not (S.kinds_in(sp) & {"Categorize", "Bag"}) and S.has_quantity(sp):
        # every quantity a one-variable string expression: such a tree may also be filled with bare numbers
        force = "str"
        bare = True
    state = ("live", "live", "merged", "reloaded")[i % 4]
    # boolean categories are legitimate Categorize keys (not together with reloaded operands: the C04 known finding
    # about True vs 'True' keys would leak into the final model comparison)
    sopts = {"cat_bool": True} if state not in ("reloaded", "zerobins") else {}
    stream = S.gen_stream(rng, sp, rng.randint(0, 8), sopts)
    if i % 10 == 7:
        state = "built"  # assembled by Stack.build / Fraction.build from filled trees
    if i % 10 == 3 and sp["k"] in ("SparselyBin", "Categorize"):
        state = "zerobins"
    proto = rng.choice([2, 3, 4, 5])
    failures = []
    counters = {"state:" + state: 1, "protocol:%d" % proto: 1}
    sets = {"kinds": S.kinds_in(sp), "flavours": S.flavours_in(sp)}
    wit = {"tree": S.describe(sp), "spec": sp, "stream": C.stream_json(stream), "state": state, "protocol": proto}

    def bad(msg, **kw):
        failures.append(C.fail(None, msg, **dict(wit, **kw)))

    h = C.fill_all(S.build(sp, force), stream)
    items = list(stream)
    if state == "merged":
        extra = S.gen_stream(rng, sp, rng.randint(0, 4))
        h = h + C.fill_all(S.build(sp, force), extra)
        items += extra
    elif state == "reloaded":
        h = Factory.fromJson(json.loads(json.dumps(h.toJson())))
    elif state == "zerobins":
        # a live sparse container that holds a bin of zero entries (it came in with a merged partial result read from
        # JSON): empty bins are content - they show in toJson, == and numFilled - and a clone has them too
        z = h.zero().toJson()
        z["data"]["bins"]["77" if sp["k"] == "SparselyBin" else "zz0"] = json.loads(json.dumps(R.ref_doc(sp["value"], [])["data"]))
        h += Factory.fromJson(z)
        counters["zero_entry_bins_injected"] = 1
    elif state == "built":
        bkind = rng.choice(["stack", "stack", "fraction"])
        bstreams = [stream] + [S.gen_stream(rng, sp, rng.randint(0, 4)) for _ in range(rng.randint(1, 2))]
        ostreams = [S.gen_stream(rng, sp, rng.randint(0, 3)) for _ in bstreams]
        wit["built"] = bkind
        counters["built:" + bkind] = 1
        h = C.built_state(sp, bstreams, bkind)
        h0copy = h.copy()
    fillable = state not in ("reloaded", "built", "zerobins")

    before = O.text(h)
    try:
        blob = pickle.dumps(h, proto)
        c = pickle.loads(blob)
    except Exception as e:  # noqa: BLE001
        bad("pickle round trip raised %s: %s" % (type(e).__name__, str(e)[:300]))
        return {"failures": failures, "counters": counters, "sets": sets, "digest": C.digest(sp, stream, proto, state), "nontrivial": False}
    counters["round_trips"] = 1
    if O.text(h) != before:
        bad("pickling changed the original")
    if O.text(c) != before:
        d = O.diff(json.loads(before), json.loads(O.text(c)), 0.0, exact=True)
        bad("the clone's document differs from the original's: %s" % C.fmt_diff(d))
    try:
        e1, e2, ne = (c == h), (h == c), (c != h)
        counters["equality_checked"] = 1
        if not (e1 and e2) or ne:
            bad("clone == original: %s, original == clone: %s, clone != original: %s" % (e1, e2, ne))
    except Exception as e:  # noqa: BLE001
        bad("comparing the clone with the original raised %s: %s" % (type(e).__name__, str(e)[:200]))
    try:
        if hash(c) != hash(h):
            # only required when equal objects hash equally; report as evidence, not as a failure
            counters["hash_differs_after_pickle"] = 1
    except Exception:  # noqa: BLE001
        counters["hash_raised"] = 1

    # lock-step continuation
    steps = []
    ghost_ok = True
    n_steps = rng.randint(1, 6 if tier == "quick" else 10)
    other_items = S.gen_stream(rng, sp, rng.randint(0, 4))
    for _ in range(n_steps):
        kind = rng.choice(["fill", "fill", "fillnp", "fillnp_scalar", "add", "iadd", "mul", "repickle", "fill_missing"] + (["fill_bare"] * 4 if bare else []) if fillable else ["add", "iadd", "mul", "repickle"])
        if kind == "mul" and S.has_transform(sp):
            kind = "repickle"
        try:
            if kind == "fill":
                r, w = S.gen_stream(rng, sp, 1)[0]
                h.fill(r, w)
                c.fill(r, w)
                items.append((r, w))
                steps.append("fill")
            elif kind == "fill_bare":
                # a bare number instead of a record: every one-variable expression takes it as its variable
                crit = S.critical_values(sp)
                v = rng.choice([x for vs in crit.values() for x in vs] or [0.5])
                if S.kinds_in(sp) & {"Select", "Fraction"}:
                    v = rng.choice([0.5, 1.0, 2.0, 0.25, -1.0, 0.0, 1.5])  # the bare value is also the selection weight: keep counts exact
                w = rng.choice([1.0, 0.5, 2.0])
                h.fill(v, w)
                c.fill(v, w)
                rec = {f: v for f in S.NUMF + S.SELF}
                rec.update(c="a", t="a")
                items.append((rec, w))
                counters["bare_value_fills"] = counters.get("bare_value_fills", 0) + 1
                steps.append("fill(bare %r)" % S.jsonable(v))
            elif kind == "fill_missing":
                # a record that lacks one of the fields: whatever the original does with it, the clone does the same
                r, w = S.gen_stream(rng, sp, 1, {"nonpos_p": 0.0})[0]
                used = sorted({nd["f"] for _, nd in S.walk(sp) if "f" in nd})
                if used:
                    del r[rng.choice(used)]
                res = []
                for x_ in (h, c):
                    try:
                        x_.fill(dict(r), w)
                        res.append(None)
                    except Exception as e_:  # noqa: BLE001
                        res.append(type(e_).__name__)
                counters["missing_field_fills"] = counters.get("missing_field_fills", 0) + 1
                if res[0] != res[1]:
                    bad("fill of a record lacking a field: original %s, clone %s" % (res[0] or "succeeded", res[1] or "succeeded"), steps=steps, record=S.jsonable(r))
                    break
                ghost_ok = False
                steps.append("fill(record lacking a field -> %s)" % (res[0] or "accepted"))
            elif kind == "fillnp" and S.has_quantity(sp):
                recs = _np_safe(sp, [r for r, _ in S.gen_stream(rng, sp, rng.randint(0, 4))])
                ws = [rng.choice([1.0, 0.5, 2.0, 0.0]) for _ in recs]
                if rng.random() < 0.3:
                    # decimal weights: the sums are no longer exact, so original and clone agree to the last bit only if
                    # they add the same numbers in the same order, i.e. run the same code path (the model is not consulted)
                    ws = [rng.choice([0.1, 0.3, 0.7, 1.0 / 3, 0.0]) for _ in recs]
                    ghost_ok = False
                    counters["decimal_weight_batches"] = counters.get("decimal_weight_batches", 0) + 1
                b1 = B.Batch(B.columns(recs), "dict")
                b2 = B.Batch(B.columns(recs), "dict")
                h.fill.numpy(b1.data, B.weights_array(ws))
                c.fill.numpy(b2.data, B.weights_array(ws))
                items.extend(zip(B.rows(b1.saved, len(recs)), ws))
                steps.append("fill.numpy(%d)" % len(recs))
            elif kind == "fillnp_scalar" and S.has_quantity(sp):
                # scalar / omitted weights: both sides run the same call, so the lock-step comparison is sound even
                # where the C03 known finding (Count before any quantity) makes the result differ from row filling;
                # the ghost model is not consulted afterwards for this case
                recs = _np_safe(sp, [r for r, _ in S.gen_stream(rng, sp, rng.randint(1, 4))])
                b1 = B.Batch(B.columns(recs), "dict")
                b2 = B.Batch(B.columns(recs), "dict")
                wsc = rng.choice([None, 1, 1.0, 2.0, 0.5])
                try:
                    if wsc is None:
                        h.fill.numpy(b1.data)
                    else:
                        h.fill.numpy(b1.data, wsc)
                    eh = None
                except Exception as e1:  # noqa: BLE001
                    eh = e1
                try:
                    if wsc is None:
                        c.fill.numpy(b2.data)
                    else:
                        c.fill.numpy(b2.data, wsc)
                    ec = None
                except Exception as e2:  # noqa: BLE001
                    ec = e2
                if (eh is None) != (ec is None):
                    bad("fill.numpy with scalar weight %r: original %s, clone %s" % (wsc, "raised %s" % type(eh).__name__ if eh else "succeeded", "raised %s" % type(ec).__name__ if ec else "succeeded"), steps=steps)
                    break
                ghost_ok = False
                steps.append("fill.numpy(scalar %r)" % (wsc,))
                if eh is not None:
                    break
            elif kind in ("add", "iadd") and state == "built":
                # merge with a copy of the original (shares nothing with the clone) or with an independently built one
                if rng.random() < 0.5:
                    o1, o2, what = h0copy.copy(), h0copy.copy(), "copy of the original"
                else:
                    o1, o2, what = C.built_state(sp, ostreams, bkind), C.built_state(sp, ostreams, bkind), "independently built"
                outcome = []
                for x_, o_ in ((h, o1), (c, o2)):
                    try:
                        if kind == "add":
                            outcome.append((x_ + o_, None))
                        else:
                            x_ += o_
                            outcome.append((x_, None))
                    except Exception as e_:  # noqa: BLE001
                        outcome.append((None, e_))
                (rh, eh), (rc, ec) = outcome
                counters["built_merges"] = counters.get("built_merges", 0) + 1
                if (eh is None) != (ec is None):
                    bad("%s with a %s: original %s, clone %s" % (kind, what, "raised %s: %s" % (type(eh).__name__, str(eh)[:80]) if eh else "succeeded", "raised %s: %s" % (type(ec).__name__, str(ec)[:80]) if ec else "succeeded"), steps=steps)
                    break
                if eh is not None:
                    bad("merging two %s-built aggregators of the same structure (%s) raised %s: %s" % (bkind, what, type(eh).__name__, str(eh)[:120]), steps=steps)
                    break
                h, c = rh, rc
                steps.append(("+ " if kind == "add" else "+= ") + what)
            elif kind == "add":
                o1 = C.fill_all(S.build(sp, force), other_items)
                o2 = C.fill_all(S.build(sp, force), other_items)
                h = h + o1
                c = c + o2
                items = items + other_items
                steps.append("+")
            elif kind == "iadd":
                o1 = C.fill_all(S.build(sp, force), other_items)
                o2 = C.fill_all(S.build(sp, force), other_items)
                h += o1
                c += o2
                items = items + other_items
                steps.append("+=")
            elif kind == "mul":
                f = rng.choice([0.5, 2.0, 3])
                h = h * f
                c = c * f
                items = [(r, w * f) for r, w in items if R.gate(w)]
                steps.append("*%r" % f)
            else:
                c = pickle.loads(pickle.dumps(c, proto))
                steps.append("re-pickle")
        except Exception as e:  # noqa: BLE001
            bad("continuation step %s raised %s: %s" % (kind, type(e).__name__, str(e)[:200]), steps=steps)
            break
        th, tc = O.text(h), O.text(c)
        counters["lockstep_comparisons"] = counters.get("lockstep_comparisons", 0) + 1
        if th != tc:
            d = O.diff(json.loads(th), json.loads(tc), 0.0, exact=True)
            bad("after %s the clone and the original differ: %s" % (" , ".join(steps), C.fmt_diff(d)), steps=steps)
            break
    if not failures:
        if ghost_ok and state != "built":
            ok, d, _, inc = R.match(sp, items, O.drop_zero_sparse(O.observe(c)), O.scale_of(items) if items else 1.0, force=force, norm=O.drop_zero_sparse)
            counters["final_ghost_checks"] = 1
            if not ok and not inc:
                bad("after the continuation the clone differs from the model of what it was given: %s" % C.fmt_diff(d), steps=steps)
        try:
            if not (c == h):
                bad("after identical continuations clone == original is False", steps=steps)
        except Exception as e:  # noqa: BLE001
            bad("== after the continuation raised %s" % type(e).__name__, steps=steps)

    return {
        "digest": C.digest(sp, stream, proto, state, steps),
        "nontrivial": counters.get("lockstep_comparisons", 0) > 0,
        "failures": failures[:3],
        "counters": counters,
        "sets": sets,
        "sample": C.case_sample(label, sp, stream, state=state, protocol=proto, continuation=steps),
    }


def conclusive(agg):
    out = []
    for fl in S.FLAVOURS:
        if fl not in agg.sets.get("flavours", ()):
            out.append("quantity flavour never generated: " + fl)
    for c in ("state:live", "state:merged", "state:reloaded", "state:built", "built_merges", "bare_value_fills", "missing_field_fills", "builtin_quantity_cases", "zero_entry_bins_injected", "decimal_weight_batches", "lockstep_comparisons", "final_ghost_checks"):
        if not agg.counters.get(c):
            out.append("never exercised: " + c)
    miss = [k for k in S.ALL_KINDS if k not in agg.sets.get("kinds", ())]
    if miss:
        out.append("primitives never generated: %s" % ", ".join(miss))
    return out
