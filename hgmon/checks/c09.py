"""C09 - equality is exactly equality of aggregated content.

Monitor: pairs (a, b) where b is a clone of a (copy / pickle / immutable-form vs JSON reload / rebuilt
and refilled) to which at most ONE point mutation is applied through public attributes or one extra
fill: a numeric field at one node at any depth, a bin key added / removed / renamed, one extra
trailing bin / threshold / centre, a nested child replaced, a structural parameter changed.  Oracle:
the truth values of a == b, b == a, a != b against equality of the C09-normalised documents (names
dropped, NaN == NaN, -0.0 == 0.0); repeated with tolerances (1e-12, 1e-12), under which every pair
equal at tolerance 0 must stay equal.
"""

import json
import math
import pickle

from .. import env, observe as O, probes, spec as S
from . import common as C

ID = "C09"
LEVEL = "exploration"
TECHNIQUE = "one-point-mutant pair monitor: == / != / symmetry of real objects against equality of normalised documents"
RULE = (
    "case = (tree spec from the stratified table then random trees, stream 0..10, clone kind in {copy, pickle, immutable-vs-reload, "
    "rebuild+refill}, mutation kind in {none, numeric field, key add/remove/rename, extra trailing bin, child replaced, structural "
    "parameter, extra fill, other primitive type} applied at a uniformly chosen node of the clone). distinct = digest(spec, stream, "
    "clone kind, mutation); non-trivial = the three comparisons were evaluated and, for mutants, the documents really differ"
    ' Every 12th case the state is assembled by Stack.build / Fraction.build; mutations are biased to special keys (NaN/inf Bag keys, saturated sparse indexes).'
)
ASSUMPTIONS = [
    "content = the toJson document with quantity names dropped (C09 speaks of type, structural parameters and aggregated content)",
    "a live aggregator vs its JSON reload are unequal by design (the quantity function takes part in ==); the reload is compared with toImmutable()",
]
FLOOR = 200

_P = ["count:Count", "sum:Sum", "average:Average", "deviate:Deviate", "minmax:Minimize", "minmax:Maximize", "bag:Bag", "bin:Bin", "sparselybin:SparselyBin", "centrallybin:CentrallyBin", "irregularlybin:IrregularlyBin", "stack:Stack", "fraction:Fraction", "select:Select", "categorize:Categorize", "collection:Label", "collection:UntypedLabel", "collection:Index", "collection:Branch"]
REQUIRED = ["primitives.%s.__eq__" % p for p in _P] + ["primitives.%s.__ne__" % p for p in _P] + ["util:numeq", "util:UserFcn.__eq__"]


def plan(tier):
    return 12000 if tier == "quick" else 150000


def budget(tier):
    return 75 if tier == "quick" else 600


def setup(tier):
    C.setup_probes()


def real_nodes(obj, path="$", out=None, seen=None):
    """All aggregator objects of a real tree (templates of sparse containers excluded)."""
    if out is None:
        out, seen = [], set()
    if obj is None or id(obj) in seen:
        return out
    seen.add(id(obj))
    out.append((path, obj))
    k = probes.base_kind(obj)
    if k == "Bin":
        for i, v in enumerate(obj.values):
            real_nodes(v, "%s.values[%d]" % (path, i), out, seen)
        for nm in ("underflow", "overflow", "nanflow"):
            real_nodes(getattr(obj, nm), path + "." + nm, out, seen)
    elif k in ("SparselyBin", "Categorize"):
        for key, v in list(obj.bins.items()):
            real_nodes(v, "%s.bins[%r]" % (path, key), out, seen)
        if k == "SparselyBin":
            real_nodes(obj.nanflow, path + ".nanflow", out, seen)
    elif k in ("CentrallyBin", "IrregularlyBin", "Stack"):
        for i, (_, v) in enumerate(obj.bins):
            real_nodes(v, "%s.bins[%d]" % (path, i), out, seen)
        real_nodes(obj.nanflow, path + ".nanflow", out, seen)
    elif k == "Fraction":
        real_nodes(obj.numerator, path + ".numerator", out, seen)
        real_nodes(obj.denominator, path + ".denominator", out, seen)
    elif k == "Select":
        real_nodes(obj.cut, path + ".cut", out, seen)
    elif k in ("Label", "UntypedLabel"):
        for key, v in obj.pairs.items():
            real_nodes(v, "%s.%s" % (path, key), out, seen)
    elif k in ("Index", "Branch"):
        for i, v in enumerate(obj.values):
            real_nodes(v, "%s[%d]" % (path, i), out, seen)
    return out


def _bump(x):
    if isinstance(x, float) and (math.isnan(x) or math.isinf(x)):
        return 0.0
    return x + 1.0


NUMERIC = {
    "Count": ["entries"],
    "Sum": ["entries", "sum"],
    "Average": ["entries", "mean"],
    "Deviate": ["entries", "mean", "varianceTimesEntries"],
    "Minimize": ["entries", "min"],
    "Maximize": ["entries", "max"],
    "Bag": ["entries"],
    "Bin": ["entries", "low", "high"],
    "SparselyBin": ["entries", "binWidth", "origin"],
    "CentrallyBin": ["entries"],
    "IrregularlyBin": ["entries"],
    "Stack": ["entries"],
    "Categorize": ["entries"],
    "Fraction": ["entries"],
    "Select": ["entries"],
    "Label": ["entries"],
    "UntypedLabel": ["entries"],
    "Index": ["entries"],
    "Branch": ["entries"],
}


def mutate(rng, root):
    """Apply one point mutation somewhere in the tree `root` (in place).  Returns a description or None."""
    nodes = real_nodes(root)
    rng.shuffle(nodes)
    kinds_pref = rng.choice(["numeric", "numeric", "key", "key", "trailing", "child", "content", "tiny"])
    for path, n in nodes:
        k = probes.base_kind(n)
        if kinds_pref == "tiny":
            # a relative change of 2e-14: unequal at tolerance 0, equal at tolerance 1e-12
            attr = rng.choice(NUMERIC[k])
            v = getattr(n, attr)
            if isinstance(v, (int, float)) and v == v and not math.isinf(v) and v != 0:
                setattr(n, attr, float(v) * (1.0 + 2e-14))
                if getattr(n, attr) != v:
                    return "tiny (2e-14 relative) %s.%s at %s" % (k, attr, path)
            continue
        if kinds_pref == "numeric":
            attr = rng.choice(NUMERIC[k])
            if attr == "varianceTimesEntries" and n.entries == 0.0:
                attr = "entries"
            setattr(n, attr, _bump(getattr(n, attr)))
            return "numeric %s.%s at %s" % (k, attr, path)
        if kinds_pref == "key":
            if k in ("SparselyBin", "Categorize") and n.bins:
                key = rng.choice(list(n.bins))
                special = [x for x in n.bins if (k == "SparselyBin" and abs(x) >= 2**62) or (k == "Categorize" and str(x) in ("NaN", "nan", "None", ""))]
                if special and rng.random() < 0.5:
                    key = rng.choice(special)
                how = rng.choice(["remove", "rename", "add"])
                if how == "remove":
                    del n.bins[key]
                elif how == "rename":
                    new = key + 1000 if k == "SparselyBin" else str(key) + "_r"
                    n.bins[new] = n.bins.pop(key)
                else:
                    new = key + 1001 if k == "SparselyBin" else str(key) + "_n"
                    n.bins[new] = n.bins[key].zero()
                return "%s bin key %s %r at %s" % (k, how, key, path)
            if k == "Bag" and n.values:
                key = rng.choice(list(n.values))
                special = [x for x in n.values if x == "nan" or (isinstance(x, float) and (x != x or x in (float("inf"), float("-inf")))) or (isinstance(x, tuple) and any(isinstance(e, str) or e != e for e in x))]
                if special and rng.random() < 0.6:
                    key = rng.choice(special)  # the NaN / infinite keys have code of their own in __eq__
                how = rng.choice(["remove", "weight", "weight", "add"])
                if how == "remove":
                    del n.values[key]
                elif how == "weight":
                    n.values[key] = n.values[key] + 1.0
                else:
                    new = {"N": 12345.5, "S": "zzz_new"}.get(n.range, (12345.5,) * max(n.dimension, 1))
                    n.values[new] = 1.0
                return "Bag value %s %r at %s" % (how, key, path)
            if k in ("Label", "UntypedLabel") and n.pairs:
                key = rng.choice(list(n.pairs))
                n.pairs[key + "_r"] = n.pairs.pop(key)
                return "%s key rename %r at %s" % (k, key, path)
        if kinds_pref == "trailing":
            if k in ("IrregularlyBin", "Stack", "CentrallyBin"):
                last_c, last_v = n.bins[-1]
                extra = ((last_c if not math.isinf(last_c) else 0.0) + 10.0, last_v.zero())
                n.bins = tuple(n.bins) + (extra,) if isinstance(n.bins, tuple) else list(n.bins) + [extra]
                return "%s extra trailing bin at %s" % (k, path)
            if k == "Bin":
                n.values = list(n.values) + [n.values[-1].zero()]
                return "Bin extra trailing bin at %s" % path
            if k in ("Index", "Branch"):
                n.values = tuple(n.values) + (n.values[-1].zero(),)
                return "%s extra trailing member at %s" % (k, path)
            if k in ("CentrallyBin", "IrregularlyBin", "Stack") and len(n.bins) > 1:
                pass
        if kinds_pref == "child":
            if k == "Bin" and n.values:
                j = rng.randrange(len(n.values))
                ch = n.values[j]
                ch.entries = _bump(ch.entries)
                return "child entries at %s.values[%d]" % (path, j)
            if k in ("CentrallyBin", "IrregularlyBin", "Stack"):
                j = rng.randrange(len(n.bins))
                c, v = n.bins[j]
                b = list(n.bins)
                b[j] = (c + 0.5 if not math.isinf(c) else 0.0, v)
                n.bins = tuple(b) if isinstance(n.bins, tuple) else b
                return "%s centre/threshold %d changed at %s" % (k, j, path)
        if kinds_pref == "content":
            # same keys, different content inside one bin
            if k in ("SparselyBin", "Categorize") and n.bins:
                key = rng.choice(list(n.bins))
                ch = n.bins[key]
                ch.entries = _bump(ch.entries)
                return "%s content of bin %r changed (same key set) at %s" % (k, key, path)
    # fall back: numeric at the root
    k = probes.base_kind(root)
    root.entries = _bump(root.entries)
    return "numeric %s.entries at $" % k


def _far_apart(da, db):
    """Do two documents differ structurally, or in some number by more than 1e-9 relative / absolute (i.e. far outside
    a tolerance of 1e-12)?"""
    if type(da) is not type(db) and not (isinstance(da, (int, float)) and isinstance(db, (int, float))):
        return True
    if isinstance(da, dict):
        return set(da) != set(db) or any(_far_apart(da[k_], db[k_]) for k_ in da)
    if isinstance(da, list):
        return len(da) != len(db) or any(_far_apart(x_, y_) for x_, y_ in zip(da, db))
    if isinstance(da, str):
        if da in ("nan", "inf", "-inf") or db in ("nan", "inf", "-inf"):
            return da != db
        return da != db
    if isinstance(da, bool) or isinstance(db, bool):
        return da != db
    if isinstance(da, (int, float)):
        return abs(da - db) > 1e-9 * max(abs(da), abs(db), 1.0)
    return da != db


SIBLING = {"Label": "UntypedLabel", "UntypedLabel": "Label", "Index": "Branch", "Branch": "Index", "IrregularlyBin": "Stack", "Stack": "IrregularlyBin"}


def _sibling_spec(rng, sp):
    import copy

    cands = []
    for path, n in S.walk(sp):
        k = n["k"]
        if k not in SIBLING:
            continue
        if k == "UntypedLabel" and len({S.describe(v).split("(")[0] for v in n["pairs"].values()}) > 1:
            continue  # a Label needs members of one type
        if k == "Branch" and len({S.describe(v).split("(")[0] for v in n["values"]}) > 1:
            continue
        cands.append((path, n))
    if not cands:
        return None
    path, n = cands[rng.randrange(len(cands))] if rng is not None else cands[0]
    m = copy.deepcopy(n)
    m["k"] = SIBLING[n["k"]]
    return S.set_at(sp, path, m), "%s -> %s at %s" % (n["k"], m["k"], "/".join(map(str, path)) or "$")


def _ed_case(i, rng, tier):
    """States built with the public ed() constructors from tuples or lists: equal to themselves, their copy(), their
    pickle clone, their JSON reload and to the same state built from the other sequence type."""
    from histogrammar.defs import Factory

    kind = C.ED_KINDS[(i // 16) % len(C.ED_KINDS)]
    sp = S.default_child(kind, rng, {"flavours": ("lambda",)})
    stream = S.gen_stream(rng, sp, rng.randint(0, 6))
    failures = []
    counters = {"ed_built_cases": 1}
    wit = {"tree": S.describe(sp), "spec": sp, "stream": C.stream_json(stream)}
    h = C.fill_all(S.build(sp), stream)
    for seq in (tuple, list):
        try:
            x = C.ed_variant(h, seq)
            other = C.ed_variant(h, list if seq is tuple else tuple)
        except Exception as e:  # noqa: BLE001
            failures.append(C.fail(None, "%s.ed(...) with %ss raised %s: %s" % (kind, seq.__name__, type(e).__name__, str(e)[:160]), **wit))
            continue
        for nm, mk in (("itself", lambda: x), ("its copy()", lambda: x.copy()), ("its pickle clone", lambda: pickle.loads(pickle.dumps(x))), ("the same state built from the other sequence type", lambda: other)):
            try:
                y = mk()
                e1, e2, n1 = (x == y), (y == x), (x != y)
            except Exception as e:  # noqa: BLE001
                failures.append(C.fail(None, "an ed()-built %s (%ss) compared with %s raised %s: %s" % (kind, seq.__name__, nm, type(e).__name__, str(e)[:160]), **wit))
                continue
            counters["ed_built_comparisons"] = counters.get("ed_built_comparisons", 0) + 1
            if not (e1 and e2) or n1:
                failures.append(C.fail(None, "an ed()-built %s (sequences given as %ss) does not equal %s (x==y %s, y==x %s, x!=y %s)" % (kind, seq.__name__, nm, e1, e2, n1), **wit))
        try:
            # in immutable form (its members are live copies): equal to its JSON reload
            imm = x.toImmutable()
            rl = Factory.fromJson(json.loads(json.dumps(x.toJson())))
            if not (imm == rl and rl == imm):
                failures.append(C.fail(None, "the immutable form of an ed()-built %s (%ss) does not equal its JSON reload" % (kind, seq.__name__), **wit))
        except Exception as e:  # noqa: BLE001
            failures.append(C.fail(None, "toImmutable / reload of an ed()-built %s (%ss) raised %s: %s" % (kind, seq.__name__, type(e).__name__, str(e)[:160]), **wit))
    return {"digest": C.digest("ed", sp, stream), "nontrivial": True, "failures": failures[:4], "counters": dict(counters, equal_pairs=1), "sets": {"kinds": S.kinds_in(sp)}, "sample": {"kind": "ed()-built", "tree": S.describe(sp)}}

_CLOSE_PAIRS = [(2**53 + 1, 2**53), (-(2**53) - 1, -(2**53)), (2**63 + 1, 2**63), (1577836800000000001, 1577836800000000000), (0.1 + 0.2, 0.3), (1.0 + 2.0**-52, 1.0), (5e-324, 0.0), (1e308, float("inf")), (1e-300, 2e-300), (float("nan"), 7.5), (float("nan"), float("inf"))]


def _directed_case(i, rng, tier):
    """Two live aggregators filled with the same data except for one value that is different but as close as two
    values can be (integers beyond 2**53 that round to one double, neighbouring doubles, NaN against a number inside a
    vector): wherever the two documents differ, == must be False at zero tolerance."""
    hg = env.hg()
    j = i // 16
    v1, v2 = _CLOSE_PAIRS[j % len(_CLOSE_PAIRS)]
    if (j // len(_CLOSE_PAIRS)) % 2:
        v1, v2 = v2, v1
    leaf = ("Minimize", "Maximize", "Sum", "Average", "Deviate", "Bag", "BagN2", "BagN3", "Categorize", "Bin")[(j // 3) % 10]
    wrap = ("bare", "Label", "Select", "BinOf", "UntypedLabel")[(j // 7) % 5]
    common = [rng.choice([1.0, -2.5, 4.0, 0.5]) for _ in range(rng.randint(0, 3))]
    pos = rng.randint(0, len(common))

    def mk():
        if leaf == "BagN2":
            x = hg.Bag(lambda d: (3.0, d), "N2")
        elif leaf == "BagN3":
            x = hg.Bag(lambda d: (d, 3.0, d), "N3")
        elif leaf == "Bag":
            x = hg.Bag(lambda d: d, "N")
        elif leaf == "Categorize":
            x = hg.Categorize(lambda d: repr(d))
        elif leaf == "Bin":
            x = hg.Bin(4, -10.0, 10.0, lambda d: 0.0, hg.Minimize(lambda d: d))
        else:
            x = getattr(hg, leaf)(lambda d: d)
        if wrap == "Label":
            return hg.Label(a=x, b=x.zero())
        if wrap == "UntypedLabel":
            return hg.UntypedLabel(a=x, b=hg.Count())
        if wrap == "Select":
            return hg.Select(lambda d: 1.0, x)
        if wrap == "BinOf":
            return hg.Bin(2, -1.0, 1.0, lambda d: 0.5, x)
        return x

    failures = []
    counters = {"directed_close_pairs": 1}
    wit = {"leaf": leaf, "wrap": wrap, "values": [repr(v1), repr(v2)], "common": common, "position": pos}
    try:
        a, b = mk(), mk()
        for h, v in ((a, v1), (b, v2)):
            for d in common[:pos] + [v] + common[pos:]:
                h.fill(d)
        da, db = json.dumps(a.toJson(), sort_keys=True), json.dumps(b.toJson(), sort_keys=True)
    except Exception as e:  # noqa: BLE001
        # a value the primitive does not take (OverflowError of a huge int in Sum, ...): nothing to compare
        return {"digest": C.digest("directed", leaf, wrap, repr(v1), repr(v2), common, pos), "nontrivial": False, "failures": [], "counters": {"directed_not_fillable": 1}, "sets": {}, "sample": {"kind": "directed close pair", "leaf": leaf, "error": type(e).__name__}}
    if da != db:
        counters["directed_documents_differ"] = 1
        try:
            e1, e2, n1, n2 = (a == b), (b == a), (a != b), (b != a)
            if e1 or e2 or not n1 or not n2:
                failures.append(C.fail(None, "a == b (%s/%s, != %s/%s) although the documents differ: %s vs %s" % (e1, e2, n1, n2, da[:160], db[:160]), **wit))
        except Exception as e:  # noqa: BLE001
            failures.append(C.fail(None, "comparing two %s in %s raised %s: %s" % (leaf, wrap, type(e).__name__, str(e)[:120]), **wit))
    else:
        counters["directed_documents_equal"] = 1
        if not (a == b and b == a) or a != b:
            failures.append(C.fail(None, "a != b although the documents are identical: %s" % da[:200], **wit))
    return {"digest": C.digest("directed", leaf, wrap, repr(v1), repr(v2), common, pos), "nontrivial": True, "failures": failures, "counters": counters, "sets": {"kinds": {leaf}}, "sample": {"kind": "directed close pair", "leaf": leaf, "wrap": wrap, "values": [repr(v1), repr(v2)]}}


def run_case(i, rng, tier):
    from histogrammar.defs import Factory
    import histogrammar.util as util

    if i % 16 == 9:
        return _ed_case(i, rng, tier)
    if i % 16 == 13:
        return _directed_case(i, rng, tier)

    label, sp = C.pick_spec(i, rng, tier)
    stream = S.gen_stream(rng, sp, rng.randint(0, 10), {"cat_bool": True})  # boolean categories are legitimate keys
    clone_kind = ("copy", "pickle", "immutable", "rebuild")[i % 4]
    mutated = i % 5 != 0
    failures = []
    counters = {"clone:" + clone_kind: 1}
    wit = {"tree": S.describe(sp), "spec": sp, "stream": C.stream_json(stream), "clone": clone_kind}

    a = C.fill_all(S.build(sp), stream)
    # the state need not come from fills alone: in-place merges, sums and scalings are reachable states too
    hist = []
    for _ in range(rng.choice([0, 0, 1, 2])):
        step = rng.choice(["+=", "+", "*1", "+=zero"])
        try:
            if step == "+=":
                a += C.fill_all(S.build(sp), S.gen_stream(rng, sp, rng.randint(0, 4)))
            elif step == "+":
                a = a + C.fill_all(S.build(sp), S.gen_stream(rng, sp, rng.randint(0, 4)))
            elif step == "*1" and not S.has_transform(sp):
                a = a * rng.choice([1, 1.0, 2.0])
            elif step == "+=zero":
                a += a.zero()
            hist.append(step)
        except Exception:  # noqa: BLE001
            break
    built = None
    if i % 12 == 5:
        # a state assembled by the alternative constructors from filled trees (NaN thresholds for Stack.build)
        built = rng.choice(["stack", "stack", "fraction"])
        bstreams = [stream] + [S.gen_stream(rng, sp, rng.randint(0, 4)) for _ in range(rng.randint(1, 2))]
        a = C.built_state(sp, bstreams, built)
        hist = ["build:" + built]
        counters["built:" + built] = 1
    counters["state_history:" + ("+".join(hist) if hist else "fills")] = 1
    wit["state_history"] = hist
    if clone_kind == "copy":
        b = a.copy()
    elif clone_kind == "pickle":
        b = pickle.loads(pickle.dumps(a))
    elif clone_kind == "immutable":
        a = a.toImmutable()
        b = Factory.fromJson(json.loads(json.dumps(a.toJson())))
    else:
        if built:
            b = C.built_state(sp, bstreams, built)  # assembled again from scratch: shares no object with a
        elif hist:
            b = a.copy()  # "rebuild" only makes sense for states reached by fills alone
        else:
            b = C.fill_all(S.build(sp), stream)

    desc = None
    if mutated:
        mk = rng.random()
        if mk < 0.1:
            # another primitive type altogether
            other_sp = S.default_child(rng.choice([k for k in S.CHILD_KINDS if not k.startswith(sp["k"])]), rng, {})
            b = S.build(other_sp)
            desc = "other primitive: " + S.describe(other_sp)
        elif mk < 0.18 and not built and _sibling_spec(rng, sp) is not None:
            # the same tree with one node replaced by its sibling type (same keys / children / thresholds): Label <->
            # UntypedLabel, Index <-> Branch, IrregularlyBin <-> Stack; filled with the same data
            sp2, what = _sibling_spec(rng, sp)
            try:
                b = C.fill_all(S.build(sp2), stream)
                if clone_kind == "immutable":
                    b = b.toImmutable()
                desc = "sibling type " + what
            except Exception:  # noqa: BLE001
                desc = mutate(rng, b)
        elif mk < 0.26 and clone_kind != "immutable" and S.has_quantity(sp):
            r, w = S.gen_stream(rng, sp, 1, {"nonpos_p": 0.0})[0]
            try:
                b.fill(r, w)
                desc = "one extra fill"
            except Exception:  # noqa: BLE001
                desc = mutate(rng, b)
        else:
            desc = mutate(rng, b)
    wit["mutation"] = desc
    counters["mutation:" + (desc.split(" at ")[0].split(" ")[0] if desc else "none")] = 1

    try:
        da = O.observe(a)
        db = O.observe(b)
    except Exception:  # noqa: BLE001
        # the mutant cannot be serialised: no content oracle for this pair
        return {"digest": C.digest(sp, stream, clone_kind, desc), "nontrivial": False, "failures": [], "counters": dict(counters, mutant_unserialisable=1), "sets": {}}
    same_content = not O.diff(da, db, 0.0, drop_names=True, exact=True)

    def compare(tag):
        res = {}
        for nm, fn in (("a==b", lambda: a == b), ("b==a", lambda: b == a), ("a!=b", lambda: a != b), ("b!=a", lambda: b != a)):
            try:
                res[nm] = bool(fn())
            except Exception as e:  # noqa: BLE001
                res[nm] = e
        counters["comparisons" + tag] = counters.get("comparisons" + tag, 0) + 1
        return res

    res = compare("")
    excs = {k: v for k, v in res.items() if isinstance(v, Exception)}
    if excs:
        k0, e0 = next(iter(excs.items()))
        failures.append(C.fail(None, "%s raised %s: %s (mutation: %s)" % (k0, type(e0).__name__, str(e0)[:160], desc), **wit))
    else:
        if res["a==b"] != res["b==a"]:
            failures.append(C.fail(None, "== is not symmetric: a==b %s, b==a %s (mutation: %s)" % (res["a==b"], res["b==a"], desc), **wit))
        if res["a!=b"] != (not res["a==b"]) or res["b!=a"] != (not res["b==a"]):
            failures.append(C.fail(None, "!= is not the negation of == (mutation: %s): %r" % (desc, res), **wit))
        if not same_content and (res["a==b"] or res["b==a"]):
            d = O.diff(da, db, 0.0, drop_names=True, exact=True)
            failures.append(C.fail(None, "a == b although the contents differ (mutation: %s): %s" % (desc, C.fmt_diff(d)), **wit))
        if same_content and not mutated and not (res["a==b"] and res["b==a"]):
            failures.append(C.fail(None, "an aggregator does not equal its %s clone" % clone_kind, **wit))
        if not mutated:
            try:
                if not (a == a) or (a != a):
                    failures.append(C.fail(None, "an aggregator does not equal itself", **wit))
            except Exception as e:  # noqa: BLE001
                failures.append(C.fail(None, "a == a raised %s" % type(e).__name__, **wit))
            # a live aggregator against its own immutable form: whether the two count as equal depends on the primitive
            # (quantities are compared), but the answer must not depend on which one is written on the left
            if clone_kind != "immutable" and not built:
                try:
                    im = a.toImmutable()
                    r1, r2, n1, n2 = (a == im), (im == a), (a != im), (im != a)
                    counters["live_vs_immutable_symmetry_checked"] = 1
                    if r1 != r2 or n1 != n2 or n1 != (not r1):
                        failures.append(C.fail(None, "live vs immutable form: a == im is %s, im == a is %s, a != im is %s, im != a is %s" % (r1, r2, n1, n2), **wit))
                except Exception as e:  # noqa: BLE001
                    failures.append(C.fail(None, "comparing an aggregator with its immutable form raised %s: %s" % (type(e).__name__, str(e)[:120]), **wit))
        # node by node: != is the negation of == wherever two corresponding nodes are compared directly
        if not failures:
            na_, nb_ = dict(real_nodes(a)), dict(real_nodes(b))
            for tol in (0.0, 1e-12):
                try:
                    util.relativeTolerance = util.absoluteTolerance = tol
                    for pth in list(na_)[:40]:
                        if pth in nb_:
                            x_, y_ = na_[pth], nb_[pth]
                            try:
                                e_, n_ = bool(x_ == y_), bool(x_ != y_)
                            except Exception:  # noqa: BLE001
                                continue
                            counters["nodewise_negation_checked"] = counters.get("nodewise_negation_checked", 0) + 1
                            if e_ == n_:
                                failures.append(C.fail(None, "at %s (tolerance %g) x == y is %s and x != y is %s (mutation: %s)" % (pth, tol, e_, n_, desc), **wit))
                                break
                finally:
                    util.relativeTolerance = 0.0
                    util.absoluteTolerance = 0.0
                if failures:
                    break
        # positive tolerances only widen
        if not failures:
            try:
                util.relativeTolerance = 1e-12
                util.absoluteTolerance = 1e-12
                res2 = compare(":tolerance")
            finally:
                util.relativeTolerance = 0.0
                util.absoluteTolerance = 0.0
            if any(isinstance(v, Exception) for v in res2.values()):
                failures.append(C.fail(None, "comparison under tolerance 1e-12 raised", **wit))
            elif (res["a==b"] and not res2["a==b"]) or (res["b==a"] and not res2["b==a"]):
                failures.append(C.fail(None, "a positive tolerance narrowed equality (mutation: %s)" % desc, **wit))
            elif mutated and not same_content and desc and not desc.startswith("tiny") and (res2["a==b"] or res2["b==a"]) and _far_apart(da, db):
                # a tolerance of 1e-12 widens the comparison of numbers by 1e-12, not to "anything goes": contents that
                # differ by a whole unit, a key, a bin or a type stay unequal
                d = O.diff(da, db, 0.0, drop_names=True, exact=True)
                failures.append(C.fail(None, "at tolerance 1e-12 a == b although the contents differ by far more (mutation: %s): %s" % (desc, C.fmt_diff(d)), **wit))

    return {
        "digest": C.digest(sp, stream, clone_kind, desc),
        "nontrivial": (not mutated) or (not same_content),
        "failures": failures[:3],
        "counters": dict(counters, equal_pairs=0 if mutated else 1, unequal_pairs=1 if (mutated and not same_content) else 0),
        "sets": {"kinds": S.kinds_in(sp), "mutations": {desc.split(" at ")[0][:40] if desc else "none"}},
        "sample": C.case_sample(label, sp, stream, clone=clone_kind, mutation=desc),
    }


def conclusive(agg):
    out = []
    for c in ("clone:copy", "clone:pickle", "clone:immutable", "clone:rebuild", "built:stack", "built:fraction", "equal_pairs", "unequal_pairs", "comparisons:tolerance", "nodewise_negation_checked", "ed_built_comparisons", "live_vs_immutable_symmetry_checked"):
        if not agg.counters.get(c):
            out.append("never exercised: " + c)
    miss = [k for k in S.ALL_KINDS if k not in agg.sets.get("kinds", ())]
    if miss:
        out.append("primitives never generated: %s" % ", ".join(miss))
    return out
