"""C07 - in-place merge (+=) agrees with pure merge (+).

Monitor (history driver, += heavy): before a += b the driver records (a + b), b's text and id(a);
after it, a must equal the recorded sum, be the same object, every other member (b included) must
be textually unchanged (frame monitor), and a's ghost multiset is the union.  Then continuations are
scheduled: fill b (row and vectorised) and re-observe a, fill a and re-observe b, a += b again.
Operands include JSON reloads (the Spark path merges a reload with +=).
"""

from .. import history as H, spec as S
from . import common as C

ID = "C07"
LEVEL = "exploration"
TECHNIQUE = "differential monitor (a += b vs recorded a + b) + frame monitor on b and identity of a + scheduled continuations on both operands"
RULE = (
    "case = pool of 3..5 trees built from one spec (stratified table then random), 10..40 operations with += drawn 4x as often "
    "as any other derivation, operands in all reachable states incl. empty sides, disjoint sparse key sets and JSON reloads. "
    "distinct = digest(spec, operation log); non-trivial = >=1 += executed with a non-empty right operand and compared with +"
)
ASSUMPTIONS = ["a += a is outside the statement (b unchanged cannot hold) and is not generated", "observation = canonical JSON; accumulated fields within the scale-aware tolerance"]
FLOOR = 200

_P = ["count:Count", "sum:Sum", "average:Average", "deviate:Deviate", "minmax:Minimize", "minmax:Maximize", "bag:Bag", "bin:Bin", "sparselybin:SparselyBin", "centrallybin:CentrallyBin", "irregularlybin:IrregularlyBin", "stack:Stack", "fraction:Fraction", "select:Select", "categorize:Categorize", "collection:Label", "collection:UntypedLabel", "collection:Index", "collection:Branch"]
REQUIRED = ["primitives.%s.__iadd__" % p for p in _P]

PROFILE = {
    "ops": [("fill", 5), ("fillnp", 2), ("iadd", 6), ("add", 1), ("mul", 0.5), ("zero", 0.7), ("copy", 0.7), ("json", 1.2), ("pickle", 0.3), ("read", 0.3)],
    "invariants": True,
    "frame": True,
    "perturb": True,
    "perturb_n": 3,
}


def plan(tier):
    return 6000 if tier == "quick" else 70000


def budget(tier):
    return 75 if tier == "quick" else 600


def setup(tier):
    C.setup_probes()


def run_case(i, rng, tier):
    label, sp = C.pick_spec(i, rng, tier)
    n_ops = rng.randint(10, 25 if tier == "quick" else 40)
    h = H.run_history(sp, rng, PROFILE, n_ops, rng.randint(3, 5))
    sets = {"kinds": S.kinds_in(sp)}
    return {
        "digest": C.digest(sp, h.log),
        "nontrivial": h.counters.get("iadd_vs_add", 0) > 0 and any(m.items for m in h.pool),
        "failures": h.failures,
        "counters": dict(h.counters, histories=1),
        "sets": sets,
        "sample": {"stratum": label, "tree": S.describe(sp), "ops": h.log[:14], "n_ops": len(h.log)},
    }


def conclusive(agg):
    out = []
    for c in ("op:iadd", "iadd_vs_add", "perturbations_scheduled:iadd", "op:json"):
        if not agg.counters.get(c):
            out.append("never exercised: " + c)
    miss = [k for k in S.ALL_KINDS if k not in agg.sets.get("kinds", ())]
    if miss:
        out.append("primitives never generated: %s" % ", ".join(miss))
    return out
