"""C07 - in-place merge (+=) agrees with pure merge (+).

Monitor (history driver, += heavy): before a += b the driver records (a + b), b's text and id(a);
after it, a must equal the recorded sum, be the same object, every other member (b included) must
be textually unchanged (frame monitor), and a's ghost multiset is the union.  Then continuations are
scheduled: fill b (row and vectorised) and re-observe a, fill a and re-observe b, a += b again.
Operands include JSON reloads (the Spark path merges a reload with +=).
"""

from .. import history as H, spec as S
from . import common as C

ID = "C07"
LEVEL = "exploration"
TECHNIQUE = "differential monitor (a += b vs recorded a + b) + frame monitor on b and identity of a + scheduled continuations on both operands"
RULE = (
    "case = pool of 3..5 trees built from one spec (stratified table then random), 10..40 operations with += drawn 4x as often "
    "as any other derivation, operands in all reachable states incl. empty sides, disjoint sparse key sets and JSON reloads. "
    "distinct = digest(spec, operation log); non-trivial = >=1 += executed with a non-empty right operand and compared with +"
)
ASSUMPTIONS = ["a += a is outside the statement (b unchanged cannot hold) and is not generated", "observation = canonical JSON; accumulated fields within the scale-aware tolerance"]
FLOOR = 200

_P = ["count:Count", "sum:Sum", "average:Average", "deviate:Deviate", "minmax:Minimize", "minmax:Maximize", "bag:Bag", "bin:Bin", "sparselybin:SparselyBin", "centrallybin:CentrallyBin", "irregularlybin:IrregularlyBin", "stack:Stack", "fraction:Fraction", "select:Select", "categorize:Categorize", "collection:Label", "collection:UntypedLabel", "collection:Index", "collection:Branch"]
REQUIRED = ["primitives.%s.__iadd__" % p for p in _P]

PROFILE = {
    "ops": [("fill", 5), ("fillnp", 2), ("iadd", 6), ("add", 1), ("mul", 0.5), ("zero", 0.7), ("copy", 0.7), ("json", 1.2), ("pickle", 0.3), ("read", 0.3)],
    "invariants": True,
    "frame": True,
    "perturb": True,
    "perturb_n": 3,
}


def plan(tier):
    return 6000 if tier == "quick" else 70000


def budget(tier):
    return 75 if tier == "quick" else 600


def setup(tier):
    C.setup_probes()


def _ed_case(i, rng, tier):
    """Operands built with the public ed() constructors (sequences as tuples or lists): a += b has the content of a + b,
    stays the same object, leaves b unchanged, and shares nothing with b afterwards."""
    from .. import observe as O

    kind = C.ED_KINDS[(i // 20) % len(C.ED_KINDS)]
    sp = S.default_child(kind, rng, {"flavours": ("lambda",)})
    sa, sb, sc = (S.gen_stream(rng, sp, rng.randint(0, 5), {"nonpos_p": 0.0}) for _ in range(3))
    failures = []
    counters = {"ed_built_cases": 1}
    wit = {"tree": S.describe(sp), "spec": sp, "stream_a": C.stream_json(sa), "stream_b": C.stream_json(sb)}
    ha, hb, hc = (C.fill_all(S.build(sp), st) for st in (sa, sb, sc))
    for seq_a, seq_b in ((tuple, tuple), (list, tuple), (tuple, list)):
        try:
            a, b, c2 = C.ed_variant(ha, seq_a), C.ed_variant(hb, seq_b), C.ed_variant(hc, seq_b)
            want = O.text(a + b)
            tb = O.text(b)
            ida = id(a)
            a += b
            counters["iadd_vs_add"] = counters.get("iadd_vs_add", 0) + 1
            if id(a) != ida:
                failures.append(C.fail(None, "a += b on ed()-built %s rebound a to another object" % kind, **wit))
            if O.text(a) != want:
                d = O.diff(__import__("json").loads(want), __import__("json").loads(O.text(a)), 0.0, exact=True)
                failures.append(C.fail(None, "ed()-built %s (%s += %s): a += b differs from a + b: %s" % (kind, seq_a.__name__, seq_b.__name__, C.fmt_diff(d)), **wit))
            if O.text(b) != tb:
                failures.append(C.fail(None, "ed()-built %s: a += b changed b" % kind, **wit))
            ta = O.text(a)
            b += c2
            if O.text(a) != ta:
                failures.append(C.fail(None, "ed()-built %s: after a += b, merging into b changed a (shared state)" % kind, **wit))
        except Exception as e:  # noqa: BLE001
            failures.append(C.fail(None, "ed()-built %s (%s += %s) raised %s: %s" % (kind, seq_a.__name__, seq_b.__name__, type(e).__name__, str(e)[:160]), **wit))
    return {"digest": C.digest("ed", sp, wit["stream_a"], wit["stream_b"]), "nontrivial": counters.get("iadd_vs_add", 0) > 0, "failures": failures[:4], "counters": counters, "sets": {"kinds": S.kinds_in(sp)}, "sample": {"kind": "ed()-built operands", "tree": S.describe(sp)}}


def run_case(i, rng, tier):
    if i % 20 == 11:
        return _ed_case(i, rng, tier)
    label, sp = C.pick_spec(i, rng, tier)
    n_ops = rng.randint(10, 25 if tier == "quick" else 40)
    h = H.run_history(sp, rng, PROFILE, n_ops, rng.randint(3, 5))
    sets = {"kinds": S.kinds_in(sp)}
    return {
        "digest": C.digest(sp, h.log),
        "nontrivial": h.counters.get("iadd_vs_add", 0) > 0 and any(m.items for m in h.pool),
        "failures": h.failures,
        "counters": dict(h.counters, histories=1),
        "sets": sets,
        "sample": {"stratum": label, "tree": S.describe(sp), "ops": h.log[:14], "n_ops": len(h.log)},
    }


def conclusive(agg):
    out = []
    for c in ("op:iadd", "iadd_vs_add", "perturbations_scheduled:iadd", "op:json"):
        if not agg.counters.get(c):
            out.append("never exercised: " + c)
    miss = [k for k in S.ALL_KINDS if k not in agg.sets.get("kinds", ())]
    if miss:
        out.append("primitives never generated: %s" % ", ".join(miss))
    return out
