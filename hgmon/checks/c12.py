"""C12 - a fill that raises leaves the aggregator as if the record had been skipped.

Fault enumeration at the user-function failpoints the property quantifies over: for a single-path
tree (Bin, SparselyBin, CentrallyBin, IrregularlyBin, Categorize, Select nested arbitrarily over any
leaf) every quantity-bearing node in turn is given a fault-injecting quantity; for both failure modes
(raise; return a value of the wrong type) and for stream-position patterns {each single position, all,
none, random subsets} the client loop `try: h.fill(d, w) except Exception: continue` is run.  Oracles:
(i) the root document text is identical before and after every failing call; (ii) the call raised iff
the injected fault actually fired (a swallowed failure and a spurious one are both seen); (iii) the
final document equals the reference model of the surviving records.
"""

import copy

from .. import observe as O, refmodel as R, spec as S
from . import common as C

ID = "C12"
LEVEL = "fault_enumeration"
TECHNIQUE = "fault injection at user-function failpoints, enumerated over (node x mode x stream position), with before/after document snapshots and a reference model of the survivors"
RULE = (
    "case = single-path tree (depth<=3/4) from a table (each of the 6 container kinds x each child kind) then random; stream of 1..8 "
    "records; enumerated fault points = every quantity-bearing node x {raise, wrong return type} x {each single stream position, all, "
    "none, 2 random subsets}. evaluations = fault runs; distinct = digest(spec, stream, node, mode, positions); non-trivial = the "
    "fault fired at least once with positive weight"
)
ASSUMPTIONS = [
    "collections / Fraction / Stack fan one datum out to several children and are outside the guarantee (the statement says so); they are not generated",
    "the failing function is consulted per call through a fault plan; nothing else in the library is made to fail",
]
FLOOR = 200

REQUIRED = [
    "primitives.bin:Bin.fill",
    "primitives.sparselybin:SparselyBin.fill",
    "primitives.centrallybin:CentrallyBin.fill",
    "primitives.irregularlybin:IrregularlyBin.fill",
    "primitives.categorize:Categorize.fill",
    "primitives.select:Select.fill",
    "primitives.bag:Bag._update",
]

KINDS = ("Bin", "SparselyBin", "CentrallyBin", "IrregularlyBin", "Categorize", "Select")
OPTS = {"container_kinds": KINDS, "transforms": True, "flavours": ("lambda", "def", "str", "named")}


def plan(tier):
    return 1400 if tier == "quick" else 14000


def budget(tier):
    return 75 if tier == "quick" else 600


def setup(tier):
    C.setup_probes()


_table = None


def _spec_table():
    global _table
    if _table is None:
        import random

        rng = random.Random("c12-table")
        out = []
        leaf_kinds = [k for k in S.CHILD_KINDS if k not in S.CONTAINERS]
        for ck in KINDS:
            for kk in leaf_kinds + list(KINDS):
                if kk in KINDS:
                    ch = S.gen_container(rng, kk, 1, dict(OPTS, hostile=0.2), child=lambda: S.gen_leaf(rng, OPTS))
                else:
                    ch = S.default_child(kk, rng, OPTS)
                base = S.gen_container(rng, ck, 1, dict(OPTS, hostile=0.2), child=lambda: copy.deepcopy(ch))
                if "nan" in base and rng.random() < 0.5:
                    base["nan"] = S.gen_leaf(rng, OPTS)
                out.append(("%s<-%s" % (ck, kk), base))
        _table = out
    return _table


def _single_path(sp):
    return all(n["k"] in KINDS or n["k"] in S.LEAF_Q or n["k"] in ("Count", "Bag") for _, n in S.walk(sp))


def run_case(i, rng, tier):
    t = _spec_table()
    if i < len(t):
        label, sp = t[i]
    else:
        label = "random"
        depth = rng.choice((1, 2, 3)) if tier == "quick" else rng.choice((2, 3, 4))
        for _ in range(30):
            sp = S.gen_spec(rng, depth, dict(OPTS, leaf_p=0.15))
            if _single_path(sp) and S.has_quantity(sp):
                break
    stream = S.gen_stream(rng, sp, rng.randint(1, 8), {"nonpos_p": 0.1})
    qnodes = [(p, n) for p, n in S.walk(sp) if "f" in n]
    failures = []
    counters = {}
    sets = {"kinds": S.kinds_in(sp)}
    digests = []
    n = len(stream)
    patterns = [{j} for j in range(n)] + [set(range(n)), set()]
    for _ in range(2):
        patterns.append({j for j in range(n) if rng.random() < 0.5})
    fired_total = 0
    for path, node in qnodes:
        role = "root" if not path else ("flow" if path[-1] in ("under", "over", "nan") else "value")
        for mode in ("raise", "wrong", "wrong-np", "wrong-like"):
            for pat in patterns:
                fsp = S.set_at(sp, path, dict(node, qf="fault"))
                h = S.build(fsp)
                S.FAULT["mode"] = mode
                S.FAULT["exc"] = rng.choice(S.FAULT_EXCEPTIONS) if mode == "raise" else None
                S.FAULT["pick"] = rng.randrange(10 * 28 * 3)
                if mode == "raise":
                    sets.setdefault("exception_classes", set()).add(S.FAULT["exc"].__name__ if S.FAULT["exc"] else "InjectedFault")
                survivors = []
                wit = {"tree": S.describe(sp), "spec": sp, "stream": C.stream_json(stream), "failing_node": "/".join(path) or "<root>", "failing_kind": node["k"], "mode": mode, "positions": sorted(pat)}
                run_fired = 0
                for j, (r, w) in enumerate(stream):
                    S.FAULT["fire"] = j in pat
                    S.FAULT["fired"] = 0
                    before = O.text(h)
                    raised = None
                    try:
                        h.fill(r, w)
                    except Exception as e:  # noqa: BLE001
                        raised = e
                    finally:
                        S.FAULT["fire"] = False
                    fired = S.FAULT["fired"]
                    run_fired += fired
                    counters["fills_under_fault_plan"] = counters.get("fills_under_fault_plan", 0) + 1
                    if raised is not None:
                        counters["failing_fills:%s:%s" % (mode, role)] = counters.get("failing_fills:%s:%s" % (mode, role), 0) + 1
                        after = O.text(h)
                        if after != before:
                            d = O.diff(O.canon(__import__("json").loads(before)), O.canon(__import__("json").loads(after)), 0.0, exact=True)
                            failures.append(C.fail(None, "a fill that raised (%s in %s at %s, mode %s, stream position %d) changed the aggregator: %s" % (type(raised).__name__, node["k"], wit["failing_node"], mode, j, C.fmt_diff(d)), position=j, **wit))
                        if not fired:
                            failures.append(C.fail(None, "fill raised %s: %s although no fault was injected (position %d)" % (type(raised).__name__, str(raised)[:160], j), position=j, **wit))
                    else:
                        if fired:
                            failures.append(C.fail(None, "the failing quantity of %s at %s was called (mode %s, position %d) but fill did not raise: failure swallowed" % (node["k"], wit["failing_node"], mode, j), position=j, **wit))
                        survivors.append((r, w))
                    if len(failures) > 4:
                        break
                counters["fault_runs"] = counters.get("fault_runs", 0) + 1
                fired_total += run_fired
                if run_fired:
                    digests.append(C.digest(sp, wit["stream"], wit["failing_node"], mode, sorted(pat)))
                    sets.setdefault("failing_kind", set()).add("%s:%s:%s" % (node["k"], mode, role))
                if not failures:
                    ok, d, _, inc = R.match(fsp, survivors, O.observe(h), O.scale_of(survivors) if survivors else 1.0)
                    counters["survivor_model_checks"] = counters.get("survivor_model_checks", 0) + 1
                    if not ok and not inc:
                        failures.append(C.fail(None, "after the loop the aggregate differs from the model of the %d surviving records: %s" % (len(survivors), C.fmt_diff(d)), **wit))
                if len(failures) > 4:
                    break
            if len(failures) > 4:
                break
        if len(failures) > 4:
            break
    # a record that lacks the field the root quantity reads: the natural failure of `lambda d: d["x"]` (KeyError)
    # and of the string expression "x" (NameError).  No injection: the quantity itself fails.
    if "f" in sp and not failures:
        rf = sp["f"]
        for pat in patterns[:6]:
            h = S.build(sp)
            survivors = []
            for j, (r, w) in enumerate(stream):
                rec = {kk: vv for kk, vv in r.items() if kk != rf} if j in pat else r
                before = O.text(h)
                raised = None
                try:
                    h.fill(rec, w)
                except Exception as e:  # noqa: BLE001
                    raised = e
                counters["fills_with_missing_field_plan"] = counters.get("fills_with_missing_field_plan", 0) + 1
                wit = {"tree": S.describe(sp), "spec": sp, "stream": C.stream_json(stream), "missing_field": rf, "positions": sorted(pat), "mode": "missing-field"}
                if j in pat and R.gate(w):
                    counters["missing_field_fills"] = counters.get("missing_field_fills", 0) + 1
                    if raised is None:
                        failures.append(C.fail(None, "record %d lacks the field %r the root quantity (%s) reads, yet fill did not raise: the failure was swallowed or a stale value was used" % (j, rf, sp.get("qf")), position=j, **wit))
                        break
                    if O.text(h) != before:
                        failures.append(C.fail(None, "the fill of a record lacking field %r raised %s but changed the aggregator" % (rf, type(raised).__name__), position=j, **wit))
                        break
                elif raised is not None:
                    failures.append(C.fail(None, "fill of a complete record raised %s: %s" % (type(raised).__name__, str(raised)[:120]), position=j, **wit))
                    break
                else:
                    survivors.append((r, w))
            else:
                ok, d, _, inc = R.match(sp, survivors, O.observe(h), O.scale_of(survivors) if survivors else 1.0)
                counters["survivor_model_checks"] = counters.get("survivor_model_checks", 0) + 1
                if not ok and not inc:
                    failures.append(C.fail(None, "after the loop with incomplete records the aggregate differs from the model of the %d complete ones: %s" % (len(survivors), C.fmt_diff(d)), tree=S.describe(sp), spec=sp, stream=C.stream_json(stream), missing_field=rf, positions=sorted(pat)))
            if failures:
                break
            if pat:
                digests.append(C.digest(sp, C.stream_json(stream), "missing:" + rf, sorted(pat)))
    res = {
        "digest": digests[0] if digests else None,
        "nontrivial": bool(digests),
        "failures": failures[:4],
        "counters": dict(counters, trees=1, faults_fired=fired_total),
        "sets": sets,
        "digests": digests,
        "evaluations": counters.get("fault_runs", 1),
        "sample": {"stratum": label, "tree": S.describe(sp), "stream": C.stream_json(stream)[:4], "quantity_nodes": ["/".join(p) or "<root>" for p, _ in qnodes], "patterns": [sorted(p) for p in patterns][:6]},
    }
    return res


def conclusive(agg):
    out = []
    fk = agg.sets.get("failing_kind", set())
    for k in KINDS:
        for mode in ("raise", "wrong", "wrong-np", "wrong-like"):
            if not any(x.startswith("%s:%s:" % (k, mode)) for x in fk):
                out.append("no fired fault in a %s quantity, mode %s" % (k, mode))
    if len(agg.sets.get("exception_classes", ())) < 15:
        out.append("fewer than 15 exception classes raised by the failing quantities")
    if not agg.counters.get("survivor_model_checks"):
        out.append("survivor model never evaluated")
    if not agg.counters.get("missing_field_fills"):
        out.append("missing-field failure mode never exercised")
    return out
