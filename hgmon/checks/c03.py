"""C03 - vectorised (numpy) fill is observationally equal to per-row fill.

Monitor: twin trees from one spec; one is filled by fill.numpy(batch, weights), the other by a Python
loop of fill(row, weight).  Inputs are read-only arrays compared with saved copies afterwards
(write-sanitizer).  A batch split into successive fill.numpy calls must equal one call.  Content is
compared up to sparse bins/categories holding zero weight.
"""

import numpy as np

from .. import batch as B, observe as O, refmodel as R, spec as S
from . import common as C

ID = "C03"
LEVEL = "exploration"
TECHNIQUE = "differential twin monitor (fill.numpy vs per-row fill of the same tree) + read-only-buffer write sanitizer"
RULE = (
    "case i = (quantity-bearing tree from the stratified table then seeded random trees depth<=3/4; batch of 0..12 rows "
    "over the critical alphabet incl. NaN/+-inf/edges+-3ulp; weights in {omitted, 1, 1.0, scalar 0.5/2/3, non-negative dyadic "
    "array with zeros}; representation in {dict of arrays, numpy.recarray, pandas.DataFrame}; optional split of the batch "
    "into 2..3 successive fill.numpy calls). distinct = digest(spec, rows, weights, representation, split); "
    "non-trivial = >=1 row with positive weight and the twin comparison was evaluated"
    ' Every 8th case is an edge sweep (one binning of Counts with a geometry drawn from decimal fractions, batch = every edge/midpoint/centre +-3ulp); selection columns are also int64/int32/uint8/bool, number columns also int64.'
)
ASSUMPTIONS = [
    "categories in array form are numpy str arrays (None/NaN categories cannot be put in one array with strings: numpy.unique rejects them before any histogram logic)",
    "DataFrame batches use string-expression quantities (a lambda d: d['x'] returns a pandas Series, which the library's own assertion rejects); string columns are stored with dtype=object",
    "accumulated fields compared with the scale-aware tolerance; exact fields exactly",
    "scalar weights are positive (the property names scalar weight 1, a scalar weight, or a non-negative array)",
]
FLOOR = 200

_P = [
    "primitives.count:Count",
    "primitives.sum:Sum",
    "primitives.average:Average",
    "primitives.deviate:Deviate",
    "primitives.minmax:Minimize",
    "primitives.minmax:Maximize",
    "primitives.bag:Bag",
    "primitives.bin:Bin",
    "primitives.sparselybin:SparselyBin",
    "primitives.centrallybin:CentrallyBin",
    "primitives.irregularlybin:IrregularlyBin",
    "primitives.stack:Stack",
    "primitives.fraction:Fraction",
    "primitives.select:Select",
    "primitives.categorize:Categorize",
    "primitives.collection:Label",
    "primitives.collection:UntypedLabel",
    "primitives.collection:Index",
    "primitives.collection:Branch",
]
REQUIRED = [p + "._numpy" for p in _P] + ["defs:Container.fillnumpy"]

OPTS = {"cat_none": False}


def plan(tier):
    return 12000 if tier == "quick" else 120000


def budget(tier):
    return 75 if tier == "quick" else 600


def setup(tier):
    C.setup_probes()


def _count_before_shape(sp):
    """D25 trigger: in traversal order, is a Count reached through collections only (before any
    quantity-bearing node fixed the batch length)?"""
    k = sp["k"]
    if k == "Count":
        return True
    if k in S.COLLECTIONS:
        for _, ch in S.children(sp):
            r = _count_before_shape(ch)
            if r is True:
                return True
            if r is False:
                return False
        return None
    return False


def _fill_numpy(h, bat, wmode, warr, parts):
    """Fill h from the batch in `parts` successive calls."""
    n = len(next(iter(bat.cols.values())))
    bounds = [0] + parts + [n]
    for a, b in zip(bounds, bounds[1:]):
        if len(bounds) == 2:
            data = bat.data
        else:
            cols = {f: arr[a:b] for f, arr in bat.cols.items()}
            sub = B.Batch({f: c.copy() for f, c in cols.items()}, bat.rep)
            data = sub.data
        if wmode == "none":
            h.fill.numpy(data)
        elif wmode == "array":
            w = warr[a:b] if len(bounds) > 2 else warr
            h.fill.numpy(data, w)
        else:
            h.fill.numpy(data, wmode)


def run_case(i, rng, tier):
    # trees must contain a quantity-bearing node
    for _ in range(50):
        label, sp = C.pick_spec(i, rng, tier, OPTS)
        if S.has_quantity(sp):
            break
        i_alt = rng.randrange(10**6)
        label, sp = "random", S.gen_spec(rng, 2, dict(OPTS))
        if S.has_quantity(sp):
            break
    if not S.has_quantity(sp):
        sp = {"k": "Branch", "values": [sp, {"k": "Sum", "f": "x", "qf": "lambda"}]}
    sweep = i % 8 == 3
    if sweep:
        # edge sweep: one binning of plain Counts with a freshly drawn decimal geometry; the batch walks through every
        # edge / midpoint / centre +-3 ulp of that geometry, so every place where the two paths compute "the same"
        # boundary with a different expression is compared on the values where the expressions can disagree
        kind = ("Bin", "SparselyBin", "CentrallyBin", "IrregularlyBin", "Stack")[(i // 8) % 5]
        sp = S.gen_container(rng, kind, 1, {"hostile": 1.0, "flavours": ("lambda", "str")}, child=lambda: {"k": "Count"})
        for slot in ("under", "over", "nan"):
            if slot in sp:
                sp[slot] = {"k": "Count"}
        label = "edge-sweep:" + kind
    rep = B.REPS[i % 3] if i % 4 else "dict"
    force = "str" if rep == "df" else None
    n = rng.randint(0, 12) if i % 9 else 0
    fast = i % 5 == 1  # aim at the fast paths: finite data, unit weights
    o = dict(OPTS)
    if fast:
        o["special_p"] = 0.0
    stream = S.gen_stream(rng, sp, n, o)
    if sweep:
        fld = sp["f"]
        vals = [v for v in S.critical_values(sp).get(fld, ()) if v == v and abs(v) != float("inf")]
        start = rng.randrange(max(1, len(vals)))
        vals = (vals[start:] + vals[:start])[:48]
        n = len(vals)
        stream = S.gen_stream(rng, sp, n, {"special_p": 0.0, "nonpos_p": 0.0, **OPTS})
        for (r, _), v in zip(stream, vals):
            r[fld] = v
        fast = rng.random() < 0.7
    recs = [r for r, _ in stream]
    if fast:
        for r in recs:
            for f in S.NUMF:
                if r[f] != r[f] or r[f] in (float("inf"), float("-inf")):
                    r[f] = 0.5
    wsel = rng.random()
    if fast or wsel < 0.25:
        wmode = rng.choice(["none", 1, 1.0])
        ws = [1.0] * n
    elif wsel < 0.45:
        wmode = rng.choice([0.5, 2.0, 3, 2, 1.0 + 2.0**-30, 1.0 - 2.0**-40])
        ws = [float(wmode)] * n
    else:
        wmode = "array"
        ws = [rng.choice([1.0, 1.0, 0.5, 2.0, 0.25, 3.0, 0.0, 0.0, 1.5]) for _ in range(n)]
        wr = rng.random()
        if wr < 0.2:
            ws = [1.0] * n  # an array of ones: fast paths again
        elif wr < 0.3:
            # weights that are nearly but not exactly one (dyadic, so that sums stay exact): not a unit-weight batch
            ws = [rng.choice([1.0 + 2.0**-18, 1.0 + 2.0**-18, 1.0 - 2.0**-19, 1.0 + 2.0**-30, 1.0]) for _ in range(n)]
    parts = []
    if n >= 2 and rng.random() < 0.35:
        parts = sorted(set(rng.randint(0, n) for _ in range(rng.randint(1, 2))))

    dt_seen = set()
    # column types: float64, or integer / boolean columns for the selections and integer columns for the numbers
    dtypes = {}
    csel = rng.random()
    if csel < 0.12:
        for r in recs:
            for f in S.SELF:
                r[f] = rng.choice([0, 1, 1, 2, -1, 3])
        dtypes.update({f: rng.choice([np.int64, np.int32, np.uint8]) if all(r[f] >= 0 for r in recs) else np.int64 for f in S.SELF})
    elif csel < 0.2:
        for r in recs:
            for f in S.SELF:
                r[f] = rng.random() < 0.6
        dtypes.update({f: np.bool_ for f in S.SELF})
    if rng.random() < 0.1:
        crit = S.critical_values(sp)
        for f in S.NUMF:
            ints = [int(v) for v in crit.get(f, ()) if v == v and abs(v) < 1e9 and v == int(v)] + list(range(-2, 7))
            for r in recs:
                r[f] = rng.choice(ints)
            dtypes[f] = np.int64
    cols = B.columns(recs, dtypes)
    for f, dt in dtypes.items():
        counters_dt = "column_dtype:%s:%s" % ("selection" if f in S.SELF else "number", np.dtype(dt).name)
        dt_seen.add(counters_dt)
    bat = B.Batch(cols, rep)
    warr = B.weights_array(ws) if wmode == "array" else None
    warr_saved = warr.copy() if warr is not None else None
    rows = B.rows(bat.saved, n)
    rstream = list(zip(rows, ws))
    scale = O.scale_of(rstream)
    wit = {
        "tree": S.describe(sp),
        "spec": sp,
        "rows": C.stream_json(rstream),
        "weights_mode": S.jsonable(wmode),
        "representation": rep,
        "split": parts,
    }
    failures = []
    counters = {"rep:" + rep: 1, "wmode:" + ("array" if wmode == "array" else "none" if wmode == "none" else "scalar"): 1}
    sets = {"kinds": S.kinds_in(sp), "routing": R.routing_classes(sp, rstream), "column_dtypes": dt_seen, "stratum": {label.split("<-")[0]}}

    # per-row twin
    hrow = S.build(sp, force)
    try:
        C.fill_all(hrow, rstream)
    except Exception as e:  # noqa: BLE001
        failures.append(C.fail(None, "per-row fill raised %s: %s" % (type(e).__name__, str(e)[:200]), **wit))
        return {"failures": failures, "counters": counters, "sets": sets, "digest": C.digest(sp, wit["rows"], rep, parts), "nontrivial": False}
    row_obs = O.drop_zero_sparse(O.observe(hrow))

    def run_numpy(parts_, wmode_, warr_):
        h = S.build(sp, force)
        try:
            _fill_numpy(h, bat, wmode_, warr_, parts_)
        except Exception as e:  # noqa: BLE001
            return None, e
        return O.drop_zero_sparse(O.observe(h)), None

    np_obs, exc = run_numpy([], wmode, warr)
    counters["twin_comparisons"] = 1
    d = None
    if exc is not None:
        msg = "fill.numpy raised %s: %s where per-row fill succeeds" % (type(exc).__name__, str(exc)[:200])
    else:
        d = O.diff(row_obs, np_obs, scale)
        msg = "fill.numpy content differs from per-row fill: %s" % C.fmt_diff(d) if d else None
    if msg:
        failures.extend(_classify(sp, force, rstream, scale, np_obs, exc, msg, wit, wmode, ws, run_numpy, row_obs))

    mod = bat.modified()
    if warr is not None and not np.array_equal(warr, warr_saved):
        mod.append("weights")
    counters["inputs_checked_unmodified"] = 1
    if mod:
        failures.append(C.fail(None, "fill.numpy modified its inputs: %s" % mod, **wit))

    # split into successive calls == one call
    if parts and exc is None and not d:
        sp_obs, exc2 = run_numpy(parts, wmode, warr)
        counters["split_comparisons"] = 1
        if exc2 is not None:
            f = _classify(sp, force, rstream, scale, None, exc2, "fill.numpy in %d successive calls raised %s: %s" % (len(parts) + 1, type(exc2).__name__, str(exc2)[:200]), wit, wmode, ws, None, row_obs)
            failures.extend(f)
        else:
            d2 = O.diff(np_obs, sp_obs, scale)
            if d2:
                failures.append(C.fail(None, "a batch split into successive fill.numpy calls differs from one call: %s" % C.fmt_diff(d2), **wit))

    nt = any(w > 0 for w in ws) and n > 0
    return {
        "digest": C.digest(sp, wit["rows"], S.jsonable(wmode), rep, parts),
        "nontrivial": nt,
        "failures": failures,
        "counters": counters,
        "sets": sets,
        "sample": {"stratum": label, "tree": S.describe(sp), "rows": wit["rows"][:4], "n_rows": n, "weights": S.jsonable(wmode if wmode != "array" else ws), "representation": rep, "split": parts},
    }


def _classify(sp, force, rstream, scale, np_obs, exc, msg, wit, wmode, ws, run_numpy, row_obs):
    """Attribute a detected difference to a known finding only if (a) its trigger is present in the
    case and (b) the numpy result equals the reference model with exactly that documented deviation
    (or, for the scalar-weight Count finding, the same case with the weights given as an array
    passes).  Anything else stays unlisted."""
    out = []

    def explained_by_variants(obs):
        """Is `obs` exactly what per-row filling gives when Sum nodes skip NaN terms (and nothing else differs)?
        Decided on the real code: a twin whose Sum nodes read a copy of their field with NaN replaced by 0."""
        import copy

        sp2 = copy.deepcopy(sp)
        touched = False
        for _, nd in S.walk(sp2):
            if nd["k"] == "Sum":
                nd["f"] = nd["f"] + "__s"
                touched = True
        if not touched:
            return False
        hit = False
        rows2 = []
        for r, w in rstream:
            r2 = dict(r)
            for f in S.NUMF:
                v = r[f]
                if v != v:
                    hit = hit or (isinstance(w, (int, float)) and w > 0)
                    v = 0.0
                r2[f + "__s"] = v
            rows2.append((r2, w))
        if not hit:
            return False
        try:
            twin = C.fill_all(S.build(sp2, force), rows2)
        except Exception:  # noqa: BLE001
            return False
        return not O.diff(O.drop_zero_sparse(O.observe(twin)), obs, scale, drop_names=True)

    if exc is None and np_obs is not None and explained_by_variants(np_obs):
        return [C.fail("Sum.numpy-drops-nan", msg, **wit)]
    if wmode not in ("array",) and _count_before_shape(sp) and run_numpy is not None:
        # neutraliser: the same weights as an explicit array
        warr = B.weights_array(ws)
        obs2, exc2 = run_numpy([], "array", warr)
        if exc2 is None:
            if not O.diff(row_obs, obs2, scale):
                return [C.fail("Count-before-quantity.scalar-weight", msg, **wit)]
            if explained_by_variants(obs2):
                # both known mechanisms in one case: with array weights only the documented NaN deviation is left
                return [C.fail("Count-before-quantity.scalar-weight", msg, **wit), C.fail("Sum.numpy-drops-nan", msg, **wit)]
    out.append(C.fail(None, msg, **wit))
    return out


def conclusive(agg):
    out = []
    kinds = agg.sets.get("kinds", set())
    miss = [k for k in S.ALL_KINDS if k not in kinds]
    if miss:
        out.append("primitives never generated: %s" % ", ".join(miss))
    for c in ("rep:dict", "rep:recarray", "rep:df", "wmode:none", "wmode:scalar", "wmode:array", "split_comparisons"):
        if not agg.counters.get(c):
            out.append("never exercised: %s" % c)
    st = agg.sets.get("stratum", set())
    miss = [k for k in ("Bin", "SparselyBin", "CentrallyBin", "IrregularlyBin", "Stack") if "edge-sweep:" + k not in st]
    if miss:
        out.append("edge sweep never run for: %s" % ", ".join(miss))
    dts = agg.sets.get("column_dtypes", set())
    for need in ("column_dtype:selection:int64", "column_dtype:selection:bool", "column_dtype:number:int64"):
        if need not in dts:
            out.append("column type never exercised: %s" % need)
    return out
