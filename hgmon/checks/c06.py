"""C06 - non-interference: operations never mutate operands or share mutable state.

Monitors.  (1) Frame monitor over histories: every live member of the pool is observed before and
after every operation; the write-set is {self} for fill / fill.numpy / += and empty for everything
else (+, *, f*, zero, copy, toJson, ==, !=, hash, repr, pickle, JSON reload, read accessors).  After
every derivation the driver schedules perturbations - fills and vectorised fills of the result and of
each source, with records already held so that they land in existing (possibly shared) bins - and
re-observes everyone; the ghost multiset of every written member must also still match.
(2) Separate constructions: two aggregators built by separate calls relying on defaults for every
optional aggregator argument (constructors, .ing, the DataFrame hg_* methods) - fill one, observe the
other (each pair in a fresh subprocess-free namespace, the default objects being process-wide).
(3) Template independence: after Parent(..., value=t, ...) fill the parent, observe t and siblings.
"""

import numpy as np

from .. import env, history as H, observe as O, spec as S
from . import common as C

ID = "C06"
LEVEL = "exploration"
TECHNIQUE = "frame (non-interference) monitor: before/after snapshots of every live aggregator around every operation, with scheduled perturbations after each derivation"
RULE = (
    "history case = pool of 3..6 trees (stratified table then random), 10..40 operations incl. pure reads; separate-construction "
    "case = one (primitive, constructor form) pair from the table of forms relying on default aggregator arguments; template case = "
    "one parent kind with an explicit template. distinct = digest(spec, operation log) / digest(form); non-trivial = >=1 frame "
    "check evaluated on a pool with a non-empty member, or the separate-construction observation was evaluated after a fill"
)
ASSUMPTIONS = [
    "Select(q, cut) and the collections store the aggregators they are given (documented: they are the children, not templates); only state shared between separately constructed trees or between a result and its operands counts",
    "observation = canonical JSON text of every live member",
]
FLOOR = 200

REQUIRED = [
    "primitives.sparselybin:SparselyBin.__add__",
    "primitives.categorize:Categorize.__add__",
    "primitives.bag:Bag.__add__",
    "primitives.bag:Bag.__iadd__",
    "primitives.bin:Bin.__init__",
    "primitives.select:Select.__init__",
    "defs:Container.copy",
    "defs:Container.__getstate__",
]

READS = ("bin_entries", "bin_edges", "bin_centers", "num_bins", "bin_width", "mpv", "histogram", "values", "n_bins", "size")


def _read(what, obj, rng):
    # a SparselyBin holding far-apart (e.g. saturated +-inf) indexes materialises its whole dense range in
    # the array accessors: that is a resource question, not a state question - skip those reads
    if hasattr(obj, "minBin") and hasattr(obj, "binWidth") and obj.bins and (int(max(obj.bins)) - int(min(obj.bins))) > 5000:
        return
    a = getattr(obj, what)
    if callable(a):
        a()


PROFILE = {
    "ops": [("fill", 4), ("fillnp", 2), ("add", 2), ("iadd", 1.5), ("mul", 2), ("zero", 1), ("copy", 2), ("json", 1), ("pickle", 1), ("read", 3)],
    "invariants": False,
    "frame": True,
    "perturb": True,
    "perturb_n": 3,
    "reads": READS,
    "read_fn": _read,
}


def plan(tier):
    return 6000 if tier == "quick" else 60000


def budget(tier):
    return 75 if tier == "quick" else 600


def setup(tier):
    C.setup_probes()


# ------------------------------------------------------------------------------------------------
# separate constructions relying on defaults


def _forms():
    hg = env.hg()
    q = lambda d: d["x"]  # noqa: E731
    p = lambda d: d["p"]  # noqa: E731
    c = lambda d: d["c"]  # noqa: E731
    forms = {
        "Bin()": lambda: hg.Bin(4, 0.0, 2.0, q),
        "Bin.ing()": lambda: hg.Bin.ing(4, 0.0, 2.0, q),
        "SparselyBin()": lambda: hg.SparselyBin(0.5, q),
        "SparselyBin.ing()": lambda: hg.SparselyBin.ing(0.5, q),
        "CentrallyBin()": lambda: hg.CentrallyBin([0.0, 1.0, 3.0], q),
        "CentrallyBin.ing()": lambda: hg.CentrallyBin.ing([0.0, 1.0, 3.0], q),
        "IrregularlyBin()": lambda: hg.IrregularlyBin([0.0, 1.0], q),
        "IrregularlyBin.ing()": lambda: hg.IrregularlyBin.ing([0.0, 1.0], q),
        "Stack()": lambda: hg.Stack([0.0, 1.0], q),
        "Stack.ing()": lambda: hg.Stack.ing([0.0, 1.0], q),
        "Categorize()": lambda: hg.Categorize(c),
        "Categorize.ing()": lambda: hg.Categorize.ing(c),
        "Fraction()": lambda: hg.Fraction(p),
        "Fraction.ing()": lambda: hg.Fraction.ing(p),
        "Select()": lambda: hg.Select(p),
        "Select.ing()": lambda: hg.Select.ing(p),
        "Count()": lambda: hg.Count(),
        "Sum()": lambda: hg.Sum(q),
        "Bag()": lambda: hg.Bag(lambda d: d["t"]),
        "Histogram()": lambda: hg.Histogram(4, 0.0, 2.0, q),
        "SparselyHistogram()": lambda: hg.SparselyHistogram(0.5, q),
        "Profile()": lambda: hg.Profile(4, 0.0, 2.0, q, lambda d: d["y"]),
        "TwoDimensionallyHistogram()": lambda: hg.TwoDimensionallyHistogram(2, 0.0, 2.0, q, 2, 0.0, 2.0, lambda d: d["y"]),
        "TwoDimensionallySparselyHistogram()": lambda: hg.TwoDimensionallySparselyHistogram(0.5, q, 0.5, lambda d: d["y"]),
        "nested Select(Bin())": lambda: hg.Select(p, hg.Bin(2, 0.0, 2.0, q)),
        "Label(Select())": lambda: hg.Label(a=hg.Select(p), b=hg.Select(p)),
    }
    return forms


DF_FORMS = {
    "df.hg_Bin": lambda df: df.hg_Bin(4, 0.0, 2.0, "x"),
    "df.hg_SparselyBin": lambda df: df.hg_SparselyBin(0.5, "x"),
    "df.hg_CentrallyBin": lambda df: df.hg_CentrallyBin([0.0, 1.0, 3.0], "x"),
    "df.hg_IrregularlyBin": lambda df: df.hg_IrregularlyBin([0.0, 1.0], "x"),
    "df.hg_Stack": lambda df: df.hg_Stack([0.0, 1.0], "x"),
    "df.hg_Fraction": lambda df: df.hg_Fraction("p"),
    "df.hg_Select": lambda df: df.hg_Select("p"),
    "df.hg_Histogram": lambda df: df.hg_Histogram(4, 0.0, 2.0, "x"),
}

_RECS = [
    {"x": 0.25, "y": 1.5, "p": True, "c": "a", "t": "s"},
    {"x": 1.75, "y": 0.5, "p": 0.5, "c": "b", "t": "s"},
    {"x": float("nan"), "y": 0.5, "p": 2, "c": None, "t": "u"},
    {"x": -3.0, "y": 1.0, "p": True, "c": "a", "t": "u"},
    {"x": 7.0, "y": 1.0, "p": True, "c": "a", "t": "u"},
]


LOADERS = ("Factory.fromJson(document)", "Factory.fromJsonString(text)", "Factory.fromJsonFile(path)")


def _loader_case(name, rng):
    """Two loads of the same document / text / file are two independent containers (immutable ones can still be merged into)."""
    import json
    import os

    from histogrammar.defs import Factory

    forms = _forms()
    fname = rng.choice(sorted(f for f in forms if f not in ("Count()",)))
    src = forms[fname]()
    for r in rng.sample(_RECS, 3):
        src.fill(r, 1.0)
    doc = src.toJson()
    text = json.dumps(doc)
    path = os.path.join(env.TMP, "c06-%d.json" % os.getpid())
    src.toJsonFile(path)
    load = {LOADERS[0]: lambda: Factory.fromJson(doc), LOADERS[1]: lambda: Factory.fromJsonString(text), LOADERS[2]: lambda: Factory.fromJsonFile(path)}[name]
    failures = []
    wit = {"form": name, "of": fname}
    try:
        a, b = load(), load()
        tb = O.text(b)
        if a is b:
            failures.append(C.fail(None, "two %s calls returned the same object" % name, **wit))
        a += load()
        if O.text(b) != tb:
            failures.append(C.fail(None, "two containers made by separate %s calls share state: merging into one changed the other" % name, **wit))
        c = load()
        if O.text(c) != tb:
            failures.append(C.fail(None, "%s after an earlier load was merged into gives different content: %s" % (name, O.text(c)[:160]), **wit))
        if O.text(src) != json.dumps(json.loads(text), sort_keys=True) and False:
            pass
    finally:
        if os.path.exists(path):
            os.remove(path)
    return {"digest": C.digest("loader", name, fname), "nontrivial": True, "failures": failures, "counters": {"separate_constructions": 1, "loader_forms": 1}, "sets": {"forms": {name}}, "sample": {"kind": "separate loads", "form": name, "of": fname}}


def _separate_case(k, rng):
    forms = _forms()
    names = sorted(forms) + sorted(DF_FORMS) + list(LOADERS)
    name = names[k % len(names)]
    if name in LOADERS:
        return _loader_case(name, rng)
    failures = []
    counters = {"separate_constructions": 1}
    wit = {"form": name}
    if name in forms:
        a = forms[name]()
        b = forms[name]()
        before_b = O.text(b)
        for r in rng.sample(_RECS, len(_RECS)):
            a.fill(r, rng.choice([1.0, 0.5, 2.0]))
        if O.text(b) != before_b:
            failures.append(C.fail(None, "two aggregators made by separate %s calls share state: filling one changed the other (%s -> %s)" % (name, before_b[:150], O.text(b)[:150]), **wit))
        c = forms[name]()
        counters["fresh_after_fill_checked"] = 1
        if O.text(c) != before_b:
            failures.append(C.fail(None, "a %s constructed after another one was filled does not start empty: %s" % (name, O.text(c)[:200]), **wit))
        # vectorised
        a2, b2 = forms[name](), forms[name]()
        before = O.text(b2)
        if name not in ("Count()",):
            data = {"x": np.array([0.25, 1.75, -3.0]), "y": np.array([1.0, 2.0, 3.0]), "p": np.array([1.0, 0.5, 1.0]), "c": np.array(["a", "b", "a"]), "t": np.array(["s", "s", "u"])}
            a2.fill.numpy(data)
            if O.text(b2) != before:
                failures.append(C.fail(None, "separate %s calls share state under fill.numpy" % name, **wit))
    else:
        import pandas as pd

        df = pd.DataFrame({"x": [0.25, 1.75, -3.0, 7.0], "p": [1.0, 0.5, 1.0, 1.0]})
        a = DF_FORMS[name](df)
        a_text = O.text(a)
        b = DF_FORMS[name](df)
        counters["df_methods"] = 1
        if O.text(a) != a_text:
            failures.append(C.fail(None, "%s called twice: the second call changed the first result (%s -> %s)" % (name, a_text[:150], O.text(a)[:150]), **wit))
        if O.text(b) != a_text:
            failures.append(C.fail(None, "%s called twice on the same frame gives different results: %s vs %s" % (name, a_text[:150], O.text(b)[:150]), **wit))
    return {"digest": C.digest("separate", name), "nontrivial": True, "failures": failures, "counters": counters, "sets": {"forms": {name}}, "sample": {"kind": "separate constructions", "form": name}}


def _template_case(k, rng, tier):
    """Parent(..., value=t, flows...) then fill the parent: t and the flow arguments stay untouched,
    and no two children of the parent are the same object."""
    hg = env.hg()
    parents = ["Bin", "SparselyBin", "CentrallyBin", "IrregularlyBin", "Stack", "Categorize", "Fraction"]
    pk = parents[k % len(parents)]
    child_kind = S.CHILD_KINDS[(k // len(parents)) % len(S.CHILD_KINDS)]
    csp = S.default_child(child_kind, rng, {})
    t = S.build(csp)
    flows = [S.build(csp) for _ in range(3)]
    q = lambda d: d["x"]  # noqa: E731
    if pk == "Bin":
        parent = hg.Bin(3, 0.0, 3.0, q, t, flows[0], flows[1], flows[2])
    elif pk == "SparselyBin":
        parent = hg.SparselyBin(1.0, q, t, flows[0])
    elif pk == "CentrallyBin":
        parent = hg.CentrallyBin([0.0, 1.0, 2.0], q, t, flows[0])
    elif pk == "IrregularlyBin":
        parent = hg.IrregularlyBin([0.0, 1.0], q, t, flows[0])
    elif pk == "Stack":
        parent = hg.Stack([0.0, 1.0], q, t, flows[0])
    elif pk == "Categorize":
        parent = hg.Categorize(lambda d: d["c"], t)
    else:
        parent = hg.Fraction(lambda d: d["p"], t)
    before = [O.text(t)] + [O.text(f) for f in flows]
    stream = S.gen_stream(rng, {"k": "Bin", "num": 3, "low": 0.0, "high": 3.0, "f": "x", "value": csp, "under": csp, "over": csp, "nan": csp}, 8, {"nonpos_p": 0.0})
    failures = []
    wit = {"parent": pk, "child": S.describe(csp)}
    try:
        for r, w in stream:
            parent.fill(r, w)
    except Exception as e:  # noqa: BLE001
        failures.append(C.fail(None, "filling %s(%s) raised %s: %s" % (pk, S.describe(csp), type(e).__name__, str(e)[:200]), **wit))
    after = [O.text(t)] + [O.text(f) for f in flows]
    counters = {"template_cases": 1}
    if after != before:
        which = [n for n, (a, b) in zip(["value template", "flow 1", "flow 2", "flow 3"], zip(before, after)) if a != b]
        failures.append(C.fail(None, "filling the parent changed the objects passed to its constructor: %s" % which, **wit))
    # children pairwise distinct objects (besides the unfilled template itself)
    kids = [c for c in parent.children if c is not None]
    ids = [id(c) for c in kids]
    if len(set(ids)) != len(ids):
        failures.append(C.fail(None, "%s holds the same child object at two positions" % pk, **wit))
    return {"digest": C.digest("template", pk, csp), "nontrivial": True, "failures": failures, "counters": counters, "sets": {"template_parents": {pk}}, "sample": {"kind": "template independence", "parent": pk, "child": S.describe(csp)}}


def _boolkey_case(k, rng):
    """Pure operations on aggregators whose categories are booleans (a legitimate Categorize quantity): the
    document turns the keys into strings, so the operand is observed through its objects as well."""
    hg = env.hg()
    inner = [lambda: hg.Count(), lambda: hg.Sum(lambda d: d["x"]), lambda: hg.Bin(2, 0.0, 2.0, lambda d: d["x"])][k % 3]
    h = hg.Categorize(lambda d: d["b"], inner())
    twin = hg.Categorize(lambda d: d["b"], inner())
    recs = [{"b": rng.random() < 0.5, "x": rng.choice([0.25, 1.5, 3.0])} for _ in range(rng.randint(2, 8))]
    for r in recs:
        w = rng.choice([1.0, 0.5, 2.0])
        h.fill(r, w)
        twin.fill(r, w)
    failures = []
    counters = {"boolkey_cases": 1}
    ops = {
        "toJson": lambda: h.toJson(),
        "toJsonString": lambda: h.toJsonString(),
        "repr": lambda: repr(h),
        "hash": lambda: hash(h),
        "==": lambda: h == twin,
        "copy": lambda: h.copy(),
        "+": lambda: h + twin,
        "*": lambda: h * 2.0,
        "zero": lambda: h.zero(),
        "toImmutable": lambda: h.toImmutable(),
        "bin_entries": lambda: h.bin_entries(),
        "bin_labels": lambda: h.bin_labels(),
    }
    names = list(ops)
    rng.shuffle(names)
    for nm in names:
        before = (H.fingerprint(h), sorted((type(kk).__name__, str(kk), v.entries) for kk, v in h.bins.items()))
        try:
            ops[nm]()
        except Exception as e:  # noqa: BLE001
            counters["boolkey_op_raised:" + nm] = 1
        after = (H.fingerprint(h), sorted((type(kk).__name__, str(kk), v.entries) for kk, v in h.bins.items()))
        counters["boolkey_frame_checks"] = counters.get("boolkey_frame_checks", 0) + 1
        if after != before:
            failures.append(C.fail(None, "%s changed its operand (a Categorize with boolean categories): %s -> %s" % (nm, before[1], after[1]), op=nm, records=S.jsonable(recs)))
            break
        try:
            if not (h == twin):
                failures.append(C.fail(None, "after %s the aggregator no longer equals its identically filled twin" % nm, op=nm, records=S.jsonable(recs)))
                break
        except Exception as e:  # noqa: BLE001
            failures.append(C.fail(None, "== raised %s after %s" % (type(e).__name__, nm), op=nm))
            break
    return {"digest": C.digest("boolkey", k, S.jsonable(recs)), "nontrivial": True, "failures": failures, "counters": counters, "sets": {}, "sample": {"kind": "pure operations on boolean-keyed Categorize", "records": S.jsonable(recs[:4])}}


def run_case(i, rng, tier):
    if i % 40 == 7:
        return _boolkey_case(i // 40, rng)
    if i % 10 == 8:
        return _separate_case(i // 10, rng)
    if i % 10 == 9:
        return _template_case(i // 10, rng, tier)
    j = i - 2 * (i // 10) - (1 if i % 10 > 8 else 0)
    label, sp = C.pick_spec(j, rng, tier)
    n_ops = rng.randint(10, 25 if tier == "quick" else 40)
    h = H.run_history(sp, rng, PROFILE, n_ops, rng.randint(3, 6))
    sets = {"kinds": S.kinds_in(sp), "ops": {k for k in h.counters if k.startswith("op:")}}
    return {
        "digest": C.digest(sp, h.log),
        "nontrivial": h.counters.get("frame_checks", 0) > 0 and any(m.items for m in h.pool),
        "failures": h.failures,
        "counters": dict(h.counters, histories=1),
        "sets": sets,
        "sample": {"kind": "history", "stratum": label, "tree": S.describe(sp), "ops": h.log[:12], "n_ops": len(h.log)},
    }


def conclusive(agg):
    out = []
    for op in ("add", "mul", "zero", "copy", "json", "pickle", "iadd", "fill", "fillnp", "read:toJson", "read:eq", "read:hash", "read:repr"):
        if not agg.counters.get("op:" + op):
            out.append("operation never executed: " + op)
    for d in ("add", "mul", "zero", "copy", "pickle", "iadd"):
        if not agg.counters.get("perturbations_scheduled:" + d):
            out.append("no perturbation followed derivation kind " + d)
    if not agg.counters.get("separate_constructions") or not agg.counters.get("df_methods"):
        out.append("separate-construction cases never ran")
    if not agg.counters.get("template_cases"):
        out.append("template cases never ran")
    if not agg.counters.get("boolkey_frame_checks"):
        out.append("boolean-key cases never ran")
    return out
