"""C14 - DataFrame filling is a homomorphism and agrees with direct filling.

Monitor: make_histograms(df, features, binning | bin_specs, time_axis, ret_specs=True) on generated
frames with float (NaN), integer, boolean and timestamp columns.  Oracles: (1) every returned
histogram's entries equals the number of rows; (2) direct oracle: the tree that the returned
bin_specs / var_dtype describe is built with the primitive API by an independent reading of the
bin_specs semantics and filled with fill.numpy from the columns (timestamps as int64 ns) - documents
must be equal; (3) homomorphism: rows are split into k chunks (some of length 1), each chunk is run
through make_histograms with the RETURNED features / bin_specs / var_dtype, the chunk histograms are
folded with + along a random schedule and must equal the whole; (4) the input frame is unchanged
(values, dtypes, columns) after every call.
"""

import io
import logging
import math

import numpy as np

from .. import env, observe as O, spec as S
from . import common as C

ID = "C14"
LEVEL = "exploration"
TECHNIQUE = "three-way differential monitor: make_histograms(whole) vs direct primitive-API filling vs fold(+) of make_histograms(chunks) with the returned specs; input-frame snapshot"
RULE = (
    "case = (frame of 1..120 rows (quick) / 1..300 (thorough) with columns x,y float (NaN), i,j int, b bool, t timestamp; 1..4 features of "
    "1..3 dimensions; binning in {auto, unit} or explicit bin_specs drawn from every supported kind {binWidth/origin, num/low/high, edges, "
    "centers, thresholds, maximize, minimize, average, deviate, sum, bag, fraction, cut}; with/without time_axis; partition of the rows into "
    "1..5 chunks). distinct = digest(frame, features, specs, partition); non-trivial = the three-way comparison was evaluated for >=1 feature"
)
ASSUMPTIONS = [
    "string columns are outside the claim (pandas 3 string dtype breaks the filler before histogram logic); NaT is not generated (its mapping to 0 is a convention the property does not speak about)",
    "+-inf is only generated with unit binning or explicit bin_specs (auto-binning derives the width from quantiles, which are not finite then)",
    "documents compared with quantity names dropped; accumulated fields within the scale-aware tolerance",
]
FLOOR = 40

REQUIRED = [
    "dfinterface.make_histograms:make_histograms",
    "dfinterface.histogram_filler_base:HistogramFillerBase.get_hist_bin",
    "dfinterface.histogram_filler_base:HistogramFillerBase.auto_complete_bin_specs",
    "dfinterface.histogram_filler_base:HistogramFillerBase.var_bin_specs",
    "dfinterface.pandas_histogrammar:PandasHistogrammar.fill_histograms",
    "dfinterface.pandas_histogrammar:PandasHistogrammar.process_features",
    "dfinterface.filling_utils:to_ns",
]

NUM = ("x", "y", "i", "j")
D30 = 30 * 24 * 3600 * 10**9


def plan(tier):
    return 480 if tier == "quick" else 6000


def budget(tier):
    return 80 if tier == "quick" else 700


def setup(tier):
    C.setup_probes()
    logging.getLogger().setLevel(logging.ERROR)
    import tqdm

    # silence the progress bar of the filler (writes to stderr)
    try:
        import histogrammar.dfinterface.pandas_histogrammar as ph

        ph.tqdm = lambda it, **kw: it
    except Exception:  # noqa: BLE001
        pass


def _frame(rng, n, allow_inf):
    import pandas as pd

    def fl():
        v = rng.choice([rng.uniform(-3, 3), rng.uniform(0, 5), round(rng.uniform(-2, 2), 1), 0.0, 1.0, 2.5])
        r = rng.random()
        if r < 0.08:
            return float("nan")
        if allow_inf and r < 0.12:
            return rng.choice([float("inf"), float("-inf")])
        return float(v)

    t0 = pd.Timestamp("2019-03-01")
    data = {
        "x": np.array([fl() for _ in range(n)], dtype=float),
        "y": np.array([fl() for _ in range(n)], dtype=float),
        "i": np.array([rng.randint(-3, 9) for _ in range(n)], dtype=np.int64),
        "j": np.array([rng.choice([0, 1, 2, 5]) for _ in range(n)], dtype=np.int64),
        "b": np.array([rng.random() < 0.4 for _ in range(n)], dtype=bool),
        "t": pd.to_datetime([t0 + pd.Timedelta(days=rng.randint(0, 500), hours=rng.randint(0, 23)) for _ in range(n)]),
    }
    if n >= 2 and rng.random() < 0.2:
        # a run of rows in which a numeric column is missing altogether (a file from the days before the column existed):
        # chunking along the run gives a partial result that has entries but has seen no number
        a_ = rng.randrange(n)
        b_ = min(n, a_ + rng.randint(1, max(1, n // 2)))
        data[rng.choice(["x", "y"])][a_:b_] = float("nan")
        data["_nan_run"] = (a_, b_)
    run = data.pop("_nan_run", None)
    df = pd.DataFrame(data)
    df.attrs["nan_run"] = run
    return df


def _gen_spec(rng, last):
    kinds = ["sparse", "sparse", "bin", "edges", "centers", "thresholds", "fraction", "cut"]
    if last:
        kinds += ["maximize", "minimize", "average", "deviate", "sum", "bag", "fraction", "cut"]
    k = rng.choice(kinds)
    if k == "sparse":
        return {"binWidth": rng.choice([0.5, 1.0, 0.25, 2.0, 0.1]), "origin": rng.choice([0.0, -0.5, 0.1])}
    if k == "bin":
        return {"num": rng.choice([1, 4, 5, 10]), "low": rng.choice([-3.0, 0.0, -0.5]), "high": rng.choice([3.0, 5.0, 9.5])}
    if k == "edges":
        return {"edges": sorted(rng.sample([-2.0, -1.0, 0.0, 0.5, 1.0, 2.0, 4.0], rng.randint(1, 4)))}
    if k == "centers":
        return {"centers": sorted(rng.sample([-2.0, -1.0, 0.0, 0.5, 1.0, 2.0, 4.0], rng.randint(2, 4)))}
    if k == "thresholds":
        th = rng.sample([-2.0, -1.0, 0.0, 0.5, 1.0, 2.0, 4.0], rng.randint(1, 3))
        return {"thresholds": th if rng.random() < 0.5 else sorted(th)}  # a Stack takes its cuts in any order
    if k == "bag":
        return {"bag": True}
    return {k: True}


def _direct_one(hg, hist, spec, quant, dt):
    """Independent reading of the bin_specs semantics (documentation of make_histograms)."""
    is_num = np.issubdtype(dt, np.number) or np.issubdtype(dt, np.datetime64)
    if not is_num:
        return hg.Categorize(quant, hist)
    if "binWidth" in spec:
        return hg.SparselyBin(spec["binWidth"], quant, hist, hg.Count(), spec.get("origin", 0.0))
    if "num" in spec:
        return hg.Bin(spec["num"], spec["low"], spec["high"], quant, hist, hg.Count(), hg.Count(), hg.Count())
    if "edges" in spec:
        return hg.IrregularlyBin(spec["edges"], quant, hist, hg.Count())
    if "maximize" in spec:
        return hg.Maximize(quant)
    if "minimize" in spec:
        return hg.Minimize(quant)
    if "average" in spec:
        return hg.Average(quant)
    if "deviate" in spec:
        return hg.Deviate(quant)
    if "sum" in spec:
        return hg.Sum(quant)
    if "centers" in spec:
        return hg.CentrallyBin(spec["centers"], quant, hist, hg.Count())
    if "thresholds" in spec:
        return hg.Stack(spec["thresholds"], quant, hist, hg.Count())
    if "bag" in spec:
        return hg.Bag(quant, spec.get("range", "N"))
    if "fraction" in spec:
        return hg.Fraction(quant, hist)
    if "cut" in spec:
        return hg.Select(quant, hist)
    raise ValueError("unknown spec %r" % (spec,))


def _spec_for(bin_specs, cols, idx, dt):
    unit = {"binWidth": 1.0, "origin": 0.0}
    import pandas as pd

    if np.issubdtype(dt, np.datetime64):
        unit = {"binWidth": pd.Timedelta(days=30).value, "origin": pd.Timestamp("2010-01-04").value}
    n = ":".join(cols)
    if n in bin_specs and len(cols) > 1 and len(cols) == len(bin_specs[n]):
        r = bin_specs[n][idx]
        if not r:
            r = bin_specs.get(cols[idx], unit)
        return r
    return bin_specs.get(cols[idx], unit)


def _columns(df):
    out = {}
    for c in df.columns:
        s = df[c]
        if str(s.dtype).startswith("datetime64"):
            out[c] = s.astype("datetime64[ns]").astype("int64").to_numpy()
        else:
            out[c] = s.to_numpy().copy()
    return out


def _direct(hg, df, feature, bin_specs, var_dtype, rowwise=False):
    cols = feature.split(":")
    h = hg.Count()
    for col in reversed(cols):
        dt = var_dtype[col]
        spec = _spec_for(bin_specs, cols, cols.index(col), dt)
        h = _direct_one(hg, h, spec, (lambda d, c=col: d[c]), dt)
    data = _columns(df)
    if rowwise:
        # one fill per row with plain Python values: shares no code with the vectorised path make_histograms uses
        n = len(df)
        for j in range(n):
            rec = {}
            for c in cols:
                v = data[c][j]
                rec[c] = v.item() if hasattr(v, "item") else v
            h.fill(rec, 1.0)
    else:
        h.fill.numpy(data)
    return h


def _scale_for(scale, f, rspecs):
    """Tolerance scale of a feature: sums, means and variances of a *timestamp* column are accumulated over values of
    1.6e18 ns, so their rounding is of the order eps * n * (1.6e18)**2 - far above anything the float columns produce."""
    if f.split(":")[-1] == "t" and any(k_ in repr(_safe_spec(rspecs, f)) for k_ in ("deviate", "average", "sum")):
        return scale * 2.6e36
    return scale


def run_case(i, rng, tier):
    hg = env.hg()
    from histogrammar.dfinterface.make_histograms import make_histograms

    mode = ("auto", "unit", "specs", "specs")[i % 4]
    n = rng.choice([1, 2, 3, 7]) if i % 9 == 0 else rng.randint(4, 120 if tier == "quick" else 300)
    df = _frame(rng, n, allow_inf=(mode != "auto"))
    saved = df.copy(deep=True)
    with_time = i % 5 == 2
    feats = []
    for _ in range(rng.randint(1, 4)):
        dim = rng.choice([1, 1, 2, 2, 3])
        cols = rng.sample(["x", "y", "i", "j", "b", "t"], dim)
        if with_time:
            cols = ["t"] + [c for c in cols if c != "t"][: max(dim - 1, 1)]
        feats.append(":".join(cols))
    feats = sorted(set(feats))
    bin_specs = None
    if mode == "specs":
        bin_specs = {}
        for f in feats:
            cols = f.split(":")
            sl = []
            for idx, c in enumerate(cols):
                if c == "b":
                    sl.append({})
                elif c == "t":
                    if idx == len(cols) - 1 and rng.random() < 0.4:
                        # aggregating a timestamp column (ns since 1970, ~1.6e18 each): sums far beyond 2**63
                        sl.append(rng.choice([{"sum": True}, {"average": True}, {"minimize": True}, {"maximize": True}, {"deviate": True}]))
                    else:
                        sl.append({"binWidth": float(rng.choice([D30, 7 * D30 // 30, 10 * D30])), "origin": float(1.5e18)})
                else:
                    sp1 = _gen_spec(rng, last=(idx == len(cols) - 1))
                    if ("fraction" in sp1 or "cut" in sp1) and c in ("x", "y"):
                        # a float column as selection weight makes the counts below it inexact sums whose last
                        # digit depends on the order of addition; integer columns keep them exact
                        sp1 = {"sum": True}
                    sl.append(sp1)
            bin_specs[f] = sl[0] if len(cols) == 1 else sl
    kw = dict(features=feats, binning="unit" if mode == "specs" else mode, bin_specs=bin_specs, ret_specs=True)
    if with_time:
        kw["time_axis"] = "t"
        kw["time_width"] = rng.choice(["30d", "1w", "90d"])
    failures = []
    counters = {"mode:" + mode: 1, "frames": 1, "time_axis" if with_time else "no_time_axis": 1}
    wit = {"features": feats, "mode": mode, "bin_specs": S.jsonable(bin_specs), "n_rows": n, "time_axis": with_time, "frame_head": S.jsonable(df.head(6).astype(str).values.tolist())}

    def bad(msg, **kw2):
        if len(failures) < 4:
            failures.append(C.fail(None, msg, **dict(wit, **kw2)))

    try:
        hists, rfeats, rspecs, rtime, rdtype = make_histograms(df, **kw)
    except Exception as e:  # noqa: BLE001
        key = None
        if mode == "auto" and isinstance(e, ValueError) and "must be less than high" in str(e):
            # known-finding candidate: auto-binning of a >=3-dimensional feature (Bin) with a constant column of
            # huge magnitude (a timestamp in ns).  Attribute it only if such a column exists and the call
            # succeeds once the features containing it are dropped (neutraliser).
            consts = [c for c in df.columns if df[c].nunique(dropna=True) <= 1 and str(df[c].dtype).startswith("datetime64")]
            culprits = [f for f in feats if len(f.split(":")) >= 3 and any(c in f.split(":") for c in consts)]
            rest = [f for f in feats if f not in culprits]
            if culprits:
                try:
                    if rest:
                        make_histograms(saved.copy(deep=True), **dict(kw, features=rest))
                    key = "auto-binning.constant-timestamp-in-3d-feature"
                except Exception:  # noqa: BLE001
                    key = None
        failures.append(C.fail(key, "make_histograms raised %s: %s" % (type(e).__name__, str(e)[:300]), **wit))
        return {"digest": C.digest(wit), "nontrivial": False, "failures": failures, "counters": counters, "sets": {}}
    if not df.equals(saved) or list(df.dtypes) != list(saved.dtypes) or list(df.columns) != list(saved.columns):
        bad("make_histograms modified the input dataframe")
    counters["frames_checked_unmodified"] = 1
    if sorted(rfeats) != sorted(feats):
        bad("returned features %r differ from the requested %r" % (rfeats, feats))
    scale = max(1.0, float(n)) * 100.0
    compared = 0
    for f in feats:
        h = hists.get(f)
        if h is None:
            bad("no histogram returned for feature %s" % f)
            continue
        counters["dims:%d" % len(f.split(":"))] = counters.get("dims:%d" % len(f.split(":")), 0) + 1
        for c in f.split(":"):
            counters["column:" + c] = counters.get("column:" + c, 0) + 1
        if h.entries != float(n):
            bad("histogram %s has entries %r for %d rows" % (f, h.entries, n), feature=f)
        # (2) direct oracle
        try:
            d = _direct(hg, saved, f, rspecs, rdtype)
        except Exception as e:  # noqa: BLE001
            bad("direct filling of the tree described by the returned specs raised %s: %s (specs %r)" % (type(e).__name__, str(e)[:200], S.jsonable(_safe_spec(rspecs, f))), feature=f)
            continue
        dd = O.diff(O.drop_zero_sparse(O.observe(d)), O.drop_zero_sparse(O.observe(h)), _scale_for(scale, f, rspecs), drop_names=True)
        counters["direct_comparisons"] = counters.get("direct_comparisons", 0) + 1
        if dd:
            bad("histogram %s differs from filling the same tree directly from the columns: %s" % (f, C.fmt_diff(dd)), feature=f, specs=S.jsonable(_safe_spec(rspecs, f)))
        compared += 1
        # (2b) the same tree filled row by row (small frames; not where the C03 known finding about Sum and NaN applies)
        if n <= 60 and not dd and "sum" not in repr(_safe_spec(rspecs, f)):
            try:
                d2 = _direct(hg, saved, f, rspecs, rdtype, rowwise=True)
            except Exception:  # noqa: BLE001
                counters["rowwise_direct_not_possible"] = counters.get("rowwise_direct_not_possible", 0) + 1
            else:
                dd2 = O.diff(O.drop_zero_sparse(O.observe(d2)), O.drop_zero_sparse(O.observe(h)), _scale_for(scale, f, rspecs), drop_names=True)
                counters["rowwise_direct_comparisons"] = counters.get("rowwise_direct_comparisons", 0) + 1
                if dd2:
                    bad("histogram %s differs from filling the same tree row by row: %s" % (f, C.fmt_diff(dd2)), feature=f, specs=S.jsonable(_safe_spec(rspecs, f)))
    # (3) homomorphism over chunks with the RETURNED specs
    k = rng.randint(1, 5)
    cuts = sorted(rng.randint(0, n) for _ in range(k - 1))
    bounds = [0] + cuts + [n]
    if n >= 3 and rng.random() < 0.3:
        bounds = sorted(set([0, 1, n - 1, n]))
    if df.attrs.get("nan_run") and rng.random() < 0.7:
        bounds = sorted(set([0, n] + list(df.attrs["nan_run"])))
    parts = []
    for a, b in zip(bounds, bounds[1:]):
        if a == b:
            continue
        chunk = saved.iloc[a:b].reset_index(drop=True) if rng.random() < 0.5 else saved.iloc[a:b]
        csaved = chunk.copy(deep=True)
        try:
            ch = make_histograms(chunk, features=rfeats, binning=kw["binning"], bin_specs=rspecs, var_dtype=rdtype, time_axis=rtime if rtime else "")
        except Exception as e:  # noqa: BLE001
            bad("make_histograms on a chunk of %d rows with the returned specs raised %s: %s" % (b - a, type(e).__name__, str(e)[:300]), chunk=[a, b])
            parts = None
            break
        if not chunk.equals(csaved):
            bad("make_histograms modified a chunk dataframe", chunk=[a, b])
        parts.append(ch)
    if parts:
        counters["chunked_runs"] = 1
        counters["chunks"] = len(parts)
        for f in feats:
            hs = [p[f] for p in parts if f in p]
            if len(hs) != len(parts) or f not in hists:
                bad("a chunk run did not return feature %s" % f)
                continue
            order = list(range(len(hs)))
            rng.shuffle(order)
            items = [hs[j] for j in order]
            try:
                while len(items) > 1:
                    j = rng.randrange(len(items) - 1)
                    items[j : j + 2] = [items[j] + items[j + 1]]
            except Exception as e:  # noqa: BLE001
                bad("chunk histograms of %s cannot be added: %s: %s" % (f, type(e).__name__, str(e)[:200]), feature=f)
                continue
            dd = O.diff(O.drop_zero_sparse(O.observe(hists[f])), O.drop_zero_sparse(O.observe(items[0])), _scale_for(scale, f, rspecs), drop_names=True)
            counters["homomorphism_comparisons"] = counters.get("homomorphism_comparisons", 0) + 1
            if dd:
                bad("histograms of %d row chunks of %s do not add up to the histogram of the whole frame: %s" % (len(parts), f, C.fmt_diff(dd)), feature=f, bounds=bounds)
    return {
        "digest": C.digest(wit, bounds),
        "nontrivial": compared > 0 and bool(parts),
        "failures": failures,
        "counters": counters,
        "sets": {"spec_kinds": {next(iter(s)) if s else "{}" for f in feats for s in ([_safe_spec(rspecs, f)] if isinstance(_safe_spec(rspecs, f), dict) else (_safe_spec(rspecs, f) or []))}},
        "sample": {"features": feats, "mode": mode, "bin_specs": S.jsonable(bin_specs), "rows": n, "chunk_bounds": bounds, "time_axis": with_time, "frame_head": wit["frame_head"][:3]},
    }


def _safe_spec(rspecs, f):
    try:
        return rspecs.get(f)
    except Exception:  # noqa: BLE001
        return None


def conclusive(agg):
    out = []
    for c in ("mode:auto", "mode:unit", "mode:specs", "time_axis", "no_time_axis", "dims:1", "dims:2", "dims:3", "column:x", "column:i", "column:b", "column:t", "direct_comparisons", "rowwise_direct_comparisons", "homomorphism_comparisons"):
        if not agg.counters.get(c):
            out.append("never exercised: " + c)
    want = {"binWidth", "num", "edges", "centers", "thresholds", "maximize", "minimize", "average", "deviate", "sum", "bag", "fraction", "cut"}
    miss = sorted(want - set(agg.sets.get("spec_kinds", ())))
    if miss:
        out.append("bin_specs kinds never used: %s" % ", ".join(miss))
    return out
