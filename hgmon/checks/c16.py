"""C16 - one aggregator placed at two positions of a tree is detected, not double-filled.

Monitor.  Positive half: a legitimate tree is built from a spec and one object is installed at two
fillable positions - siblings in a collection (through the public constructors), cousins under
different parents (Select keeps the cut it is given; nested collections), a flow and a value slot or
two flows (post-construction assignment), a node and its own descendant (a cycle) - and the tree is
filled row-wise and vectorised, twice.  Oracle: ContainerException each time; the entries of every
node unchanged by the rejected fill; if nothing is raised the fan-out probe shows the shared object
filled twice for one datum, reported as the double fill.  Negative half: trees whose sparse containers
share an unfilled template, zero()/copy()-derived trees and live+reload sums are never rejected.
"""

import numpy as np

from .. import batch as B, env, observe as O, probes, spec as S
from . import common as C
from .c09 import real_nodes

ID = "C16"
LEVEL = "exploration"
TECHNIQUE = "shared-node injection at enumerated position pairs; fill must raise ContainerException before any state change (entries snapshot + fan-out call-trace probe)"
RULE = (
    "positive case = (tree spec from the table/random, sharing kind in {siblings via constructor, cousins via Select/collections, two flows, "
    "flow+value, node and own descendant (cycle), a node already filled stand-alone then embedded twice}, fill path in {row, numpy}, two "
    "attempts); negative case = legitimate tree with shared unfilled templates / zero() / copy() / live+reload derivation filled 1..6 times. "
    "distinct = digest(spec, sharing kind, path); non-trivial = the fill was attempted on a tree where the sharing really exists (checked by identity)"
)
ASSUMPTIONS = [
    "a shared node installed by attribute assignment AFTER a successful fill of the same root is not generated: the check result is cached per root by design (_checkedForCrossReferences), and post-construction surgery on an already filled tree is not part of the public API",
    "state snapshot = (id, entries) of every reachable node, taken by an identity-safe walk (toJson would not terminate on a cycle)",
]
FLOOR = 100

REQUIRED = ["defs:Container._checkForCrossReferences", "defs:Container.fillnumpy"]


def plan(tier):
    return 4000 if tier == "quick" else 60000


def budget(tier):
    return 75 if tier == "quick" else 600


def setup(tier):
    C.setup_probes()


def _snapshot(root):
    out = {}
    stack = [root]
    while stack:
        n = stack.pop()
        if n is None or id(n) in out:
            continue
        out[id(n)] = getattr(n, "entries", None)
        try:
            stack.extend(c for c in n.children if c is not None)
        except Exception:  # noqa: BLE001
            pass
    return out


def _shared_tree(rng, kind, sp):
    """Build a tree with one object at two fillable positions; returns (root, shared object)."""
    hg = env.hg()
    x = S.build(sp)
    p = lambda d: d["p"]  # noqa: E731
    q = lambda d: d["x"]  # noqa: E731
    if kind == "siblings:Label":
        return hg.Label(a=x, b=x), x
    if kind == "siblings:UntypedLabel":
        return hg.UntypedLabel(a=x, b=hg.Count(), c=x), x
    if kind == "siblings:Index":
        return hg.Index(x, x), x
    if kind == "siblings:Branch":
        return hg.Branch(hg.Count(), x, x), x
    if kind == "cousins:Select":
        return hg.Branch(hg.Select(p, x), hg.Select(p, x)), x
    if kind == "cousins:collections":
        return hg.Branch(hg.Label(a=x), hg.Index(x)), x
    if kind == "uncle:Select+member":
        return hg.Branch(hg.Select(p, x), x), x
    if kind == "deep-cousins":
        return hg.UntypedLabel(a=hg.Select(p, hg.Branch(x)), b=hg.Branch(hg.Count(), hg.Label(k=x))), x
    if kind == "flows":
        b = hg.Bin(3, 0.0, 3.0, q, hg.Count(), S.build(sp), S.build(sp), S.build(sp))
        b.underflow = x
        b.overflow = x
        return b, x
    if kind == "flow+value":
        b = hg.Bin(3, 0.0, 3.0, q, S.build(sp), S.build(sp), S.build(sp), S.build(sp))
        b.values[1] = x
        b.nanflow = x
        return b, x
    if kind == "values":
        b = hg.Bin(3, 0.0, 3.0, q, S.build(sp))
        b.values[0] = x
        b.values[2] = x
        return b, x
    if kind == "central-bins":
        b = hg.CentrallyBin([0.0, 1.0, 2.0], q, S.build(sp))
        b.bins[0] = (b.bins[0][0], x)
        b.bins[2] = (b.bins[2][0], x)
        return b, x
    if kind == "fraction":
        f = hg.Fraction(p, S.build(sp))
        f.numerator = x
        f.denominator = x
        return f, x
    if kind == "cycle:Label":
        lab = hg.Label(a=hg.Count())
        lab.pairs["a"] = lab
        return lab, lab
    if kind == "cycle:deep":
        inner = hg.Branch(hg.Count())
        root = hg.Select(p, hg.Label(a=inner))
        inner.values = (hg.Count(), root)
        return root, root
    if kind == "prefilled-embedded":
        for _ in range(rng.randint(1, 3)):
            r_ = S.gen_record(rng, {}, {})
            if rng.random() < 0.6:
                r_["c"] = rng.choice([True, False])  # boolean categories are legitimate keys (and do not sort with strings)
            x.fill(r_, 1.0)
        return hg.Index(x, x), x
    raise ValueError(kind)


def _slots(obj, path=()):
    """Every fillable child position of a real tree as (path, getter, setter), found by an identity-safe walk
    over the attributes of each primitive (deliberately NOT through the library's own `children`)."""
    out = []
    k = probes.base_kind(obj)

    def add(name, get, put):
        child = get()
        out.append((path + (name,), get, put))
        if child is not None:
            out.extend(_slots(child, path + (name,)))

    if k == "Bin":
        for i in range(len(obj.values)):
            add("values[%d]" % i, lambda i=i: obj.values[i], lambda v, i=i: obj.values.__setitem__(i, v))
        for nm in ("underflow", "overflow", "nanflow"):
            add(nm, lambda nm=nm: getattr(obj, nm), lambda v, nm=nm: setattr(obj, nm, v))
    elif k in ("SparselyBin", "Categorize"):
        if not obj.bins:
            key = 3 if k == "SparselyBin" else "k3"
            obj.bins[key] = obj.value.zero()
        for key in list(obj.bins):
            add("bins[%r]" % (key,), lambda key=key: obj.bins[key], lambda v, key=key: obj.bins.__setitem__(key, v))
        if k == "SparselyBin":
            add("nanflow", lambda: obj.nanflow, lambda v: setattr(obj, "nanflow", v))
    elif k in ("CentrallyBin", "IrregularlyBin", "Stack"):
        for i in range(len(obj.bins)):

            def put(v, i=i):
                b = list(obj.bins)
                b[i] = (b[i][0], v)
                obj.bins = tuple(b) if isinstance(obj.bins, tuple) else b

            add("bins[%d]" % i, lambda i=i: obj.bins[i][1], put)
        add("nanflow", lambda: obj.nanflow, lambda v: setattr(obj, "nanflow", v))
    elif k == "Fraction":
        add("numerator", lambda: obj.numerator, lambda v: setattr(obj, "numerator", v))
        add("denominator", lambda: obj.denominator, lambda v: setattr(obj, "denominator", v))
    elif k == "Select":
        add("cut", lambda: obj.cut, lambda v: setattr(obj, "cut", v))
    elif k in ("Label", "UntypedLabel"):
        for key in list(obj.pairs):
            add("pairs[%r]" % key, lambda key=key: obj.pairs[key], lambda v, key=key: obj.pairs.__setitem__(key, v))
    elif k in ("Index", "Branch"):
        for i in range(len(obj.values)):

            def put(v, i=i):
                vals = list(obj.values)
                vals[i] = v
                obj.values = tuple(vals)
                if k == "Branch":
                    setattr(obj, "i%d" % i, v)

            add("values[%d]" % i, lambda i=i: obj.values[i], put)
    return out


def _generic_shared(rng, tier, i):
    """A legitimate tree from a spec, then one fresh leaf installed at two unrelated positions."""
    for _ in range(30):
        _, sp = C.pick_spec(rng.randrange(600) if rng.random() < 0.7 else 10**9, rng, tier, {"flavours": ("lambda", "def")}, "c16")
        if sp["k"] in S.CONTAINERS:
            break
    root = S.build(sp)
    # the tree may be in any state when the shared node is installed: fresh, or derived (non-zero entries
    # although this very object was never filled) by a merge, a scaling or a copy of a filled tree
    pre = rng.choice(["fresh", "fresh", "merged", "scaled", "copied", "combined", "incremented", "pickled", "imerged"])
    if pre != "fresh":
        try:
            import pickle

            import histogrammar.defs as defs

            base = C.fill_all(S.build(sp), S.gen_stream(rng, sp, rng.randint(1, 4), {"nonpos_p": 0.0}))
            if pre == "merged":
                root = base + C.fill_all(S.build(sp), S.gen_stream(rng, sp, 2, {"nonpos_p": 0.0}))
            elif pre == "combined":
                # the Spark helpers: the result of combine() of two filled (hence verified) trees is a new tree
                root = defs.combine(base, C.fill_all(S.build(sp), S.gen_stream(rng, sp, 2, {"nonpos_p": 0.0})))
            elif pre == "incremented":
                root = defs.combine(defs.increment(base.zero(), S.gen_record(rng, {}, {"cat_none": False})), base)
            elif pre == "pickled":
                root = pickle.loads(pickle.dumps(base.zero() + base))
            elif pre == "imerged":
                root = base.zero()
                root += base
            elif pre == "scaled" and not S.has_transform(sp):
                root = base * 2.0
            else:
                root = base.copy()
        except Exception:  # noqa: BLE001
            root = S.build(sp)
            pre = "fresh"
    slots = _slots(root)
    if len(slots) < 2:
        return None
    touched = rng.random() < 0.5
    if touched:
        # the tree has been looked at before the shared node is installed (children, values, keys, edges ...): a derived
        # list that an accessor caches must not be what the walk later trusts instead of the real children
        for node in [root] + [g_() for _, g_, _ in slots]:
            tgt = node
            while probes.base_kind(tgt) == "Select":
                tgt = tgt.cut  # a Select forwards unknown attributes (bin_entries ...) to its cut
            dense_ok = not (probes.base_kind(tgt) == "SparselyBin" and tgt.bins and int(max(tgt.bins)) - int(min(tgt.bins)) > 5000)
            for a_ in ("children", "values", "keys", "size", "bins", "thresholds", "centers", "n_bins", "n_dim", "indexes", "range", "bin_edges", "bin_centers", "bin_entries", "num_bins", "bin_width", "bin_labels"):
                if not dense_ok and a_ in ("bin_edges", "bin_centers", "bin_entries", "num_bins", "indexes", "range"):
                    continue  # a sparse histogram spanning 2**63 bins: its dense views cannot be materialised
                try:
                    v_ = getattr(node, a_, None)
                    if callable(v_):
                        v_ = v_()
                    if v_ is not None and not isinstance(v_, (int, float, str)):
                        len(v_)
                except Exception:  # noqa: BLE001
                    pass
    for _ in range(40):
        (p1, g1, s1), (p2, g2, s2) = rng.sample(slots, 2)
        if p1[: len(p2)] == p2 or p2[: len(p1)] == p1:
            continue
        x = S.build(S.default_child(rng.choice(["Count", "Sum", "Bag:N", "Minimize"]), rng, {"flavours": ("lambda",)}))
        # install the deeper one first so that neither assignment detaches the other position
        s1(x)
        s2(x)
        if g1() is x and g2() is x:
            return root, x, sp, "generic:%s+%s" % (p1[-1].split("[")[0], p2[-1].split("[")[0]), "/".join(p1) + " & " + "/".join(p2) + " (root %s%s)" % (pre, ", views read before" if touched else "")
    return None


SHARE_KINDS = [
    "siblings:Label",
    "siblings:UntypedLabel",
    "siblings:Index",
    "siblings:Branch",
    "cousins:Select",
    "cousins:collections",
    "uncle:Select+member",
    "deep-cousins",
    "flows",
    "flow+value",
    "values",
    "central-bins",
    "fraction",
    "cycle:Label",
    "cycle:deep",
    "prefilled-embedded",
]


def _positive(i, rng, tier):
    hg = env.hg()
    from histogrammar.defs import ContainerException

    if i % 3 == 2:
        return _positive_generic(i, rng, tier)
    kind = SHARE_KINDS[i % len(SHARE_KINDS)]
    ck = S.CHILD_KINDS[(i // len(SHARE_KINDS)) % len(S.CHILD_KINDS)]
    sp = S.default_child(ck, rng, {"flavours": ("lambda",)}) if rng.random() < 0.7 else S.gen_spec(rng, 2, {"flavours": ("lambda", "def")})
    if kind == "prefilled-embedded" and not S.has_quantity(sp) and sp["k"] != "Count":
        sp = {"k": "Count"}
    path = ("row", "numpy", "row", "dataframe")[(i // 3) % 4]
    failures = []
    counters = {"shared:" + kind: 1, "path:" + path: 1}
    wit = {"sharing": kind, "shared_tree": S.describe(sp), "path": path}
    try:
        root, shared = _shared_tree(rng, kind, sp)
    except Exception as e:  # noqa: BLE001
        # e.g. Label/Index type uniformity: not a sharing question
        return {"digest": None, "nontrivial": False, "failures": [], "counters": {"not_constructible": 1}, "sets": {}}
    rec = S.gen_record(rng, S.critical_values(sp), {"cat_none": False})
    rec["x"] = rng.choice([0.5, 1.5, 2.5, -1.0, 7.0, float("nan")])
    for attempt in (1, 2):
        before = _snapshot(root)
        raised = None
        roots = []
        if path == "row":
            roots, raised = probes.traced_fill(root, rec, 1.0)
        elif path == "dataframe":
            # the pandas accessor df.histogrammar(tree) (what df.hg_Bin(...) etc. go through)
            r2 = dict(rec)
            bat = B.Batch(B.columns([r2, r2]), "df")
            try:
                bat.data.histogrammar(root)
            except Exception as e:  # noqa: BLE001
                raised = e
        else:
            r2 = dict(rec)
            bat = B.Batch(B.columns([r2, r2]), "dict")
            try:
                root.fill.numpy(bat.data)
            except Exception as e:  # noqa: BLE001
                raised = e
        counters["fills_on_shared_trees"] = counters.get("fills_on_shared_trees", 0) + 1
        after = _snapshot(root)
        if raised is None:
            dbl = []
            for c in roots:
                dbl += [v for v in probes.fanout_violations(c) if "twice" in v]
            grown = after.get(id(shared), 0) - before.get(id(shared), 0) if kind.split(":")[0] != "cycle" else None
            failures.append(C.fail(None, "fill #%d (%s) of a tree with one object at two positions (%s) did not raise; shared object's entries grew by %r%s" % (attempt, path, kind, grown, "; fan-out probe: " + dbl[0] if dbl else ""), attempt=attempt, **wit))
            break
        if not isinstance(raised, ContainerException):
            failures.append(C.fail(None, "fill #%d (%s) of a tree with one object at two positions (%s) raised %s instead of ContainerException: %s" % (attempt, path, kind, type(raised).__name__, str(raised)[:160]), attempt=attempt, **wit))
            break
        if after != before:
            failures.append(C.fail(None, "the rejected fill #%d (%s, %s) changed state before raising" % (attempt, path, kind), attempt=attempt, **wit))
            break
    return {
        "digest": C.digest(kind, sp, path),
        "nontrivial": True,
        "failures": failures,
        "counters": counters,
        "sets": {"share_kinds": {kind}},
        "sample": {"kind": "shared node", "sharing": kind, "shared_subtree": S.describe(sp), "path": path},
    }


def _positive_generic(i, rng, tier):
    from histogrammar.defs import ContainerException

    g = _generic_shared(rng, tier, i)
    if g is None:
        return {"digest": None, "nontrivial": False, "failures": [], "counters": {"generic_not_constructible": 1}, "sets": {}}
    root, shared, sp, kind, where = g
    path = "numpy" if (i // 3) % 2 else "row"
    failures = []
    counters = {"shared:generic": 1, "path:" + path: 1}
    wit = {"sharing": kind, "positions": where, "tree": S.describe(sp), "path": path}
    rec = S.gen_record(rng, S.critical_values(sp), {"cat_none": False})
    for attempt in (1, 2):
        before = _snapshot(root)
        raised = None
        try:
            if path == "row":
                root.fill(rec, 1.0)
            else:
                root.fill.numpy(B.Batch(B.columns([dict(rec), dict(rec)]), "dict").data)
        except Exception as e:  # noqa: BLE001
            raised = e
        counters["fills_on_shared_trees"] = counters.get("fills_on_shared_trees", 0) + 1
        after = _snapshot(root)
        if raised is None:
            failures.append(C.fail(None, "fill #%d (%s) of a tree with one object at two positions (%s: %s) did not raise" % (attempt, path, kind, where), attempt=attempt, **wit))
            break
        if not isinstance(raised, ContainerException):
            # the walk precedes any use of the data: anything else means the check did not come first
            failures.append(C.fail(None, "fill #%d (%s) of a tree with one object at two positions (%s: %s) raised %s instead of ContainerException: %s" % (attempt, path, kind, where, type(raised).__name__, str(raised)[:160]), attempt=attempt, **wit))
            break
        if after != before:
            failures.append(C.fail(None, "the rejected fill #%d (%s, %s) changed state before raising" % (attempt, path, kind), attempt=attempt, **wit))
            break
    return {
        "digest": C.digest("generic", sp, where, path),
        "nontrivial": True,
        "failures": failures,
        "counters": counters,
        "sets": {"share_kinds": {kind}},
        "sample": {"kind": "shared node (generic positions)", "tree": S.describe(sp), "positions": where, "path": path},
    }


def _negative(i, rng, tier):
    """Legitimate trees must never be rejected."""
    hg = env.hg()
    from histogrammar.defs import ContainerException, Factory
    import json

    variant = ("shared-template", "nested-sparse", "zero", "copy", "live+reload", "table")[i % 6]
    q = lambda d: d["x"]  # noqa: E731
    stream = None
    if variant == "shared-template":
        t = S.build(S.default_child(rng.choice(["Count", "Sum", "Bag:N", "Categorize", "SparselyBin"]), rng, {"flavours": ("lambda",)}))
        root = hg.Label(a=hg.SparselyBin(1.0, q, t), b=hg.SparselyBin(0.5, q, t))
        if rng.random() < 0.5:
            root = hg.Branch(hg.Categorize(lambda d: d["c"], t), hg.SparselyBin(1.0, q, t), hg.Categorize(lambda d: d["t"], t))
        sp = None
    else:
        if variant == "nested-sparse":
            sp = {"k": "Bin", "num": 3, "low": 0.0, "high": 3.0, "f": "x", "qf": "lambda", "value": {"k": "SparselyBin", "bw": 0.5, "origin": 0.0, "f": "y", "qf": "lambda", "value": {"k": "Categorize", "f": "c", "qf": "lambda", "value": {"k": "Count"}}, "nan": {"k": "Count"}}, "under": {"k": "Count"}, "over": {"k": "Count"}, "nan": {"k": "Count"}}
        else:
            _, sp = C.pick_spec(i // 6, rng, tier)
        base = C.fill_all(S.build(sp), S.gen_stream(rng, sp, rng.randint(0, 5)))
        if variant == "zero":
            root = base.zero()
        elif variant == "copy":
            root = base.copy()
        elif variant == "live+reload":
            root = S.build(sp) + Factory.fromJson(json.loads(json.dumps(S.build(sp).toJson())))
        else:
            root = base
    failures = []
    counters = {"legitimate:" + variant: 1}
    crit = S.critical_values(sp) if sp else {}
    n = rng.randint(1, 6)
    for j in range(n):
        rec = S.gen_record(rng, crit, {"cat_none": False})
        try:
            if j % 3 == 2 and (sp is None or S.has_quantity(sp)):
                bat = B.Batch(B.columns([rec]), "dict")
                root.fill.numpy(bat.data, B.weights_array([1.0]))
            else:
                root.fill(rec, 1.0)
            counters["legitimate_fills"] = counters.get("legitimate_fills", 0) + 1
        except ContainerException as e:
            failures.append(C.fail(None, "a legitimate tree (%s) was rejected: %s" % (variant, str(e)[:200]), variant=variant, tree=S.describe(sp) if sp else "shared template"))
            break
        except Exception:  # noqa: BLE001
            # other exceptions are other properties' business (C02/C03)
            counters["other_exception"] = counters.get("other_exception", 0) + 1
            break
    return {
        "digest": C.digest("neg", variant, sp, i),
        "nontrivial": counters.get("legitimate_fills", 0) > 0,
        "failures": failures,
        "counters": counters,
        "sets": {"legit_variants": {variant}},
        "sample": {"kind": "legitimate tree", "variant": variant, "tree": S.describe(sp) if sp else "sparse containers sharing one template object"},
    }


def run_case(i, rng, tier):
    if i % 2 == 0:
        return _positive(i // 2, rng, tier)
    return _negative(i // 2, rng, tier)


def conclusive(agg):
    out = []
    for k in SHARE_KINDS + ["generic"]:
        if not agg.counters.get("shared:" + k):
            out.append("sharing kind never tried: " + k)
    for p in ("row", "numpy", "dataframe"):
        if not agg.counters.get("path:" + p):
            out.append("path never tried: " + p)
    if agg.counters.get("legitimate_fills", 0) < 500:
        out.append("fewer than 500 legitimate fills (%d)" % agg.counters.get("legitimate_fills", 0))
    return out
