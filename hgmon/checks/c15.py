"""C15 - malformed or foreign JSON is rejected, never loaded as a corrupted aggregator.

Fault enumeration over documents: valid documents come from the tree grammar (every primitive in every
position, empty and filled); a schema-aware mutator walks each document alongside its spec, so it
knows the role of every position (structural dict vs user-keyed map, numeric field, type name,
fragment, list element) and produces ALL single-point mutants that are invalid by construction:
delete a required key; add an unknown key to a structural dict; retype a value to a JSON type its role
never admits; rename a type to an unregistered name; replace or truncate an element inside a
bins/values/data list; entries = -1 at every node; incompatible / malformed version.  Every mutant must
make Factory.fromJson raise; every unmutated document must load.
"""

import copy
import json

from .. import env, observe as O, spec as S
from . import common as C

ID = "C15"
LEVEL = "fault_enumeration"
TECHNIQUE = "schema-aware single-point document mutation, exhaustive per document; Factory.fromJson must raise on every mutant and accept every original"
RULE = (
    "case = one valid document (tree spec from the stratified table, empty and filled, then random trees; via toJson + json round trip); "
    "evaluations = mutants; all single-point mutants of the document are enumerated: {delete required key, add unknown key, retype "
    "number->'abc'/[]/{}, retype name->5, type->5/[]/unregistered name, list<->dict, fragment->wrong scalar, list element->junk/null/{}/"
    "element missing a key, entries=-1, version '99.99'/5/'abc', header key deleted, sparse key non-integer}. distinct = digest(document, "
    "JSON path, mutation kind); non-trivial = the mutant differs from the original document"
    ' Negative entries in four spellings (-1, -0.5, -1e-300, "-inf").'
)
ASSUMPTIONS = [
    "mutations that yield another VALID document are not generated: deleting optional keys, true for a number, renaming to a registered type of the same shape, adding keys inside user-keyed maps, changing bins:type of an empty sparse container, removing a whole list element",
    "any exception type counts as rejection",
]
FLOOR = 200

_P = ["count:Count", "sum:Sum", "average:Average", "deviate:Deviate", "minmax:Minimize", "minmax:Maximize", "bag:Bag", "bin:Bin", "sparselybin:SparselyBin", "centrallybin:CentrallyBin", "irregularlybin:IrregularlyBin", "stack:Stack", "fraction:Fraction", "select:Select", "categorize:Categorize", "collection:Label", "collection:UntypedLabel", "collection:Index", "collection:Branch"]
REQUIRED = ["primitives.%s.fromJsonFragment" % p for p in _P] + ["defs:Factory.fromJson"]

OPTS = {}


def plan(tier):
    return 1200 if tier == "quick" else 16000


def budget(tier):
    return 75 if tier == "quick" else 600


def setup(tier):
    C.setup_probes()


REQ = {
    "Sum": ["entries", "sum"],
    "Average": ["entries", "mean"],
    "Deviate": ["entries", "mean", "variance"],
    "Minimize": ["entries", "min"],
    "Maximize": ["entries", "max"],
    "Bag": ["entries", "values", "range"],
    "Bin": ["low", "high", "entries", "values:type", "values", "underflow:type", "underflow", "overflow:type", "overflow", "nanflow:type", "nanflow"],
    "SparselyBin": ["binWidth", "entries", "bins:type", "bins", "nanflow:type", "nanflow", "origin"],
    "CentrallyBin": ["entries", "bins:type", "bins", "nanflow:type", "nanflow"],
    "IrregularlyBin": ["entries", "bins:type", "bins", "nanflow:type", "nanflow"],
    "Stack": ["entries", "bins:type", "bins", "nanflow:type", "nanflow"],
    "Categorize": ["entries", "bins:type", "bins"],
    "Fraction": ["entries", "sub:type", "numerator", "denominator"],
    "Select": ["entries", "sub:type", "data"],
    "Label": ["entries", "sub:type", "data"],
    "UntypedLabel": ["entries", "data"],
    "Index": ["entries", "sub:type", "data"],
    "Branch": ["entries", "data"],
}
NUMERIC = {
    "Sum": ["entries", "sum"],
    "Average": ["entries", "mean"],
    "Deviate": ["entries", "mean", "variance"],
    "Minimize": ["entries", "min"],
    "Maximize": ["entries", "max"],
    "Bag": ["entries"],
    "Bin": ["low", "high", "entries"],
    "SparselyBin": ["binWidth", "entries", "origin"],
}
JUNK_NUM = ["abc", [], {}, None, "", "2.0", " 2 ", "1_0", "+1", "2e0", "0x10"]  # incl. strings a lenient float()/int() would parse
VOCAB = ["entries", "data", "type", "version", "sub:type", "w", "v", "center", "atleast", "values", "bins", "name", "sum", "low", "origin", "nanflow"]


def positions(node, frag, path):
    """Yield (path, role, info) for every mutable position of a fragment; path is a list of keys/indexes."""
    k = node["k"]
    if k == "Count":
        yield path, "count", None
        return
    yield path, "struct", k
    for key in NUMERIC.get(k, ["entries"]):
        yield path + [key], "number", k
    for key in list(frag):
        if key == "name" or key.endswith(":name"):
            yield path + [key], "name", k
        if key.endswith(":type"):
            yield path + [key], "typename", k
    if k == "Bag":
        yield path + ["values"], "list", k
        yield path + ["range"], "string", k
        for i, el in enumerate(frag["values"]):
            yield path + ["values", i], "element", ("w", "v")
            yield path + ["values", i, "w"], "number", "Bag.w"
            yield path + ["values", i, "v"], "bagvalue", frag["range"]
        if frag["values"]:
            yield path + ["values"], "baglist", frag["range"]
    elif k == "Bin":
        yield path + ["values"], "list", k
        for i, v in enumerate(frag["values"][:3]):
            yield from positions(node["value"], v, path + ["values", i])
        for slot, key in (("under", "underflow"), ("over", "overflow"), ("nan", "nanflow")):
            yield from positions(node[slot], frag[key], path + [key])
    elif k == "SparselyBin":
        yield path + ["bins"], "map", k
        for key, v in list(frag["bins"].items())[:2]:
            yield path + ["bins", key], "intkey", k
            yield from positions(node["value"], v, path + ["bins", key])
        yield from positions(node["nan"], frag["nanflow"], path + ["nanflow"])
    elif k in ("CentrallyBin", "IrregularlyBin", "Stack"):
        ck = "center" if k == "CentrallyBin" else "atleast"
        yield path + ["bins"], "list", k
        for i, el in enumerate(frag["bins"][:3]):
            yield path + ["bins", i], "element", (ck, "data")
            yield path + ["bins", i, ck], "number", k + "." + ck
            yield from positions(node["value"], el["data"], path + ["bins", i, "data"])
        yield from positions(node["nan"], frag["nanflow"], path + ["nanflow"])
    elif k == "Categorize":
        yield path + ["bins"], "map", k
        for key, v in list(frag["bins"].items())[:2]:
            yield from positions(node["value"], v, path + ["bins", key])
    elif k == "Fraction":
        yield from positions(node["value"], frag["numerator"], path + ["numerator"])
        yield from positions(node["value"], frag["denominator"], path + ["denominator"])
    elif k == "Select":
        yield from positions(node["cut"], frag["data"], path + ["data"])
    elif k == "Label":
        yield path + ["data"], "map", k
        for key, ch in node["pairs"].items():
            yield from positions(ch, frag["data"][key], path + ["data", key])
    elif k == "UntypedLabel":
        yield path + ["data"], "map", k
        for key, ch in node["pairs"].items():
            yield path + ["data", key], "element", ("type", "data")
            yield path + ["data", key, "type"], "typename", k
            yield from positions(ch, frag["data"][key]["data"], path + ["data", key, "data"])
    elif k == "Index":
        yield path + ["data"], "list", k
        for i, ch in enumerate(node["values"]):
            yield from positions(ch, frag["data"][i], path + ["data", i])
    elif k == "Branch":
        yield path + ["data"], "list", k
        for i, ch in enumerate(node["values"]):
            yield path + ["data", i], "element", ("type", "data")
            yield path + ["data", i, "type"], "typename", k
            yield from positions(ch, frag["data"][i]["data"], path + ["data", i, "data"])


def _get(doc, path):
    for p in path:
        doc = doc[p]
    return doc


def _set(doc, path, value):
    d = copy.deepcopy(doc)
    cur = d
    for p in path[:-1]:
        cur = cur[p]
    cur[path[-1]] = value
    return d


def _del(doc, path):
    d = copy.deepcopy(doc)
    cur = d
    for p in path[:-1]:
        cur = cur[p]
    del cur[path[-1]]
    return d


def mutants(sp, doc):
    """All single-point invalid mutants [(kind, path, mutated document)]."""
    out = []
    # header
    for key in ("type", "data", "version"):
        out.append(("header:delete-" + key, [key], _del(doc, [key])))
    for v, nm in (("99.99", "incompatible"), ("2.0", "newer-major"), ("2.1", "newer-major-same-minor"), ("1.2", "newer-minor"), ("1.10", "newer-minor-two-digits"), ("1.100", "newer-minor-three-digits"), ("1.11", "newer-minor-eleven"), ("10.0", "newer-major-two-digits"), (5, "non-string"), ("abc", "non-numeric")):
        out.append(("header:version-" + nm, ["version"], _set(doc, ["version"], v)))
    for v, nm in ((5, "non-string"), ("NoSuchPrimitive", "unregistered"), ([], "list")):
        out.append(("header:type-" + nm, ["type"], _set(doc, ["type"], v)))
    out.append(("header:not-an-object", [], [doc]))
    out.append(("header:add-key", ["__unknown__"], _set(doc, ["__unknown__"], 1)))
    for vk in ("entries", "sub:type", "name", "bins"):
        out.append(("header:add-vocabulary-key", [vk], _set(doc, [vk], 1)))
    for path, role, info in positions(sp, doc["data"], ["data"]):
        cur = _get(doc, path)
        if role == "count":
            for j in ("abc", [], {}, None, "", "2.0", "1_0", " 2 "):
                out.append(("count:retype", path, _set(doc, path, j)))
            out.append(("count:boolean", path, _set(doc, path, True)))
            out.append(("entries:-1", path, _set(doc, path, -1)))
            for j, nm in ((-0.5, "negative-float"), (-1e-300, "negative-tiny"), ("-inf", "minus-infinity-spelled")):
                out.append(("entries:" + nm, path, _set(doc, path, j)))
        elif role == "struct":
            for key in REQ[info]:
                out.append(("struct:delete-key", path + [key], _del(doc, path + [key])))
            out.append(("struct:add-key", path + ["__unknown__"], _set(doc, path + ["__unknown__"], 1)))
            for vk in VOCAB:
                # a key the format uses elsewhere, but which this fragment never has (names are optional here)
                if vk not in cur and vk not in REQ[info] and vk != "name" and not vk.endswith(":name"):
                    out.append(("struct:add-vocabulary-key", path + [vk], _set(doc, path + [vk], 1)))
            for j in (3.5, "abc", [], None, 0, ""):
                out.append(("struct:fragment-retype", path, _set(doc, path, j)))
            if isinstance(cur, dict) and "name" not in cur and info != "Bag" or (isinstance(cur, dict) and "name" not in cur):
                # the optional name, added with a wrong type (whatever name the parent announces for its children)
                for j in (5, [], {}, False, 2.5):
                    out.append(("name:added-wrong-type", path + ["name"], _set(doc, path + ["name"], j)))
            out.append(("entries:-1", path + ["entries"], _set(doc, path + ["entries"], -1)))
            for j, nm in ((-0.5, "negative-float"), (-1e-300, "negative-tiny"), ("-inf", "minus-infinity-spelled")):
                out.append(("entries:" + nm, path + ["entries"], _set(doc, path + ["entries"], j)))
        elif role == "number":
            for j in JUNK_NUM:
                out.append(("number:retype", path, _set(doc, path, j)))
            if path[-1] not in ("min", "max") and not isinstance(cur, bool):
                # a JSON boolean where a number is expected (min / max excepted: a boolean-valued quantity puts one there)
                out.append(("number:boolean", path, _set(doc, path, True)))
        elif role == "name":
            for j in (5, 0, [], {}, False, 2.5):
                out.append(("name:retype", path, _set(doc, path, j)))
        elif role == "string":
            for j in (5, 0, [], None):
                out.append(("string:retype", path, _set(doc, path, j)))
            if info == "Bag":
                for j in ("bogus", "", "n", "N0", "NS"):
                    out.append(("bag:range-unknown", path, _set(doc, path, j)))
        elif role == "bagvalue":
            # a value of the wrong kind for the declared range
            wrong = {"N": ["x", [1.0], [], None, {}], "S": [1.5, [1.0], None, {}], "N2": ["x", 1.5, [1.0], [1.0, 2.0, 3.0], [1.0, "x"], None]}.get(info, [None])
            for j in wrong:
                out.append(("bag:value-wrong-kind", path, _set(doc, path, j)))
            par = path[:-1]
            out.append(("bag:negative-weight", par + ["w"], _set(doc, par + ["w"], -1.0)))
        elif role == "baglist":
            # the same value listed twice: one of the two weights would be dropped silently
            lst = copy.deepcopy(cur)
            lst.append(dict(lst[0], w=7.0))
            out.append(("bag:duplicate-value", path, _set(doc, path, lst)))
        elif role == "typename":
            for j in (5, [], 0, None, "", "NoSuchPrimitive"):
                out.append(("typename:retype" if j != "NoSuchPrimitive" else "typename:unregistered", path, _set(doc, path, j)))
        elif role == "list":
            out.append(("list:to-dict", path, _set(doc, path, {})))
            out.append(("list:to-scalar", path, _set(doc, path, 3)))
            out.append(("list:to-null", path, _set(doc, path, None)))
            if info in ("Bin", "CentrallyBin", "IrregularlyBin", "Stack", "Index", "Branch"):
                # these lists are never empty in a document toJson writes (a binning has >= 1 bin, a collection >= 1 member)
                out.append(("list:emptied", path, _set(doc, path, [])))
        elif role == "map":
            out.append(("map:to-list", path, _set(doc, path, [])))
            out.append(("map:to-scalar", path, _set(doc, path, 3)))
            out.append(("map:to-null", path, _set(doc, path, None)))
        elif role == "intkey":
            par = path[:-1]
            m = copy.deepcopy(_get(doc, par))
            m["not-an-int"] = m.pop(path[-1])
            out.append(("sparse-key:non-integer", path, _set(doc, par, m)))
        elif role == "element":
            for j in (7, None, {}, "abc", [], 0, ""):
                out.append(("element:replace", path, _set(doc, path, j)))
            for key in info:
                out.append(("element:missing-" + ("key"), path + [key], _del(doc, path + [key])))
            out.append(("element:extra-key", path + ["__unknown__"], _set(doc, path + ["__unknown__"], 1)))
            for vk in VOCAB:
                if vk not in info and isinstance(cur, dict) and vk not in cur:
                    out.append(("element:extra-vocabulary-key", path + [vk], _set(doc, path + [vk], 1)))
    return out


def run_case(i, rng, tier):
    from histogrammar.defs import Factory

    nt = C.table_size("c15", OPTS)
    if i < 2 * nt:
        label, sp = C.table("c15", OPTS)[i // 2]
        n = 0 if i % 2 == 0 else rng.randint(2, 8)
    else:
        label, sp = C.pick_spec(10**9, rng, tier, OPTS, "c15")
        n = rng.randint(0, 8)
    stream = S.gen_stream(rng, sp, n)
    counters = {"documents": 1}
    if i % 5 == 4:
        # a state reached by merging partial results whose data are all one non-integer value (a fine binning merged
        # across partitions): accumulated moments of such merges are where rounding leaves -1e-17 or 1 - 1e-16
        base = S.gen_stream(rng, sp, 1)[0][0]
        v = rng.choice([0.3, 0.7, 1.1, 0.1, 2.2, -0.3])
        if isinstance(base, dict):
            base = dict(base)
            for f_ in ("x", "y", "z"):
                if isinstance(base.get(f_), float):
                    base[f_] = v
        n1, n2 = rng.randint(1, 5), rng.randint(1, 6)
        stream = [(base, 1.0)] * (n1 + n2)
        try:
            h = C.fill_all(S.build(sp), stream[:n1]) + C.fill_all(S.build(sp), stream[n1:])
            if rng.random() < 0.5:
                h += C.fill_all(S.build(sp), stream[: rng.randint(1, 4)])
            counters["merged_constant_states"] = 1
        except Exception:  # noqa: BLE001
            h = C.fill_all(S.build(sp), stream)
    else:
        h = C.fill_all(S.build(sp), stream)
    doc = json.loads(json.dumps(h.toJson(), allow_nan=False))
    failures = []
    if i % 5 == 4:
        # the same for every moment-carrying leaf, bare and as bin content: the merged partials of constant data
        hg_ = env.hg()
        ident = lambda d: d  # noqa: E731
        for v_ in (0.3, 0.7, 1.1, 0.1):
            for n1_ in range(1, 5):
                n2_ = rng.randint(1, 6)
                for mk_ in (lambda: hg_.Deviate(ident), lambda: hg_.Average(ident), lambda: hg_.Categorize(lambda d: "k", hg_.Deviate(ident)), lambda: hg_.Bin(2, 0.0, 4.0, ident, hg_.Deviate(ident)), lambda: hg_.SparselyBin(0.5, ident, hg_.Deviate(ident))):
                    a_, b_ = mk_(), mk_()
                    for _ in range(n1_):
                        a_.fill(v_)
                    for _ in range(n2_):
                        b_.fill(v_)
                    m_ = a_ + b_
                    counters["merged_constant_leaf_documents"] = counters.get("merged_constant_leaf_documents", 0) + 1
                    try:
                        d_ = json.loads(json.dumps(m_.toJson(), allow_nan=False))
                        Factory.fromJson(copy.deepcopy(d_))
                    except Exception as e:  # noqa: BLE001
                        failures.append(C.fail(None, "a document produced by toJson (merge of %d x %r and %d x %r) is refused: %s: %s" % (n1_, v_, n2_, v_, type(e).__name__, str(e)[:200]), document=m_.toJson()))
                        break
    sets = {"kinds": S.kinds_in(sp)}
    wit0 = {"tree": S.describe(sp), "spec": sp, "stream": C.stream_json(stream)}
    try:
        Factory.fromJson(copy.deepcopy(doc))
        Factory.fromJsonString(json.dumps(doc))
        counters["originals_accepted"] = 1
    except Exception as e:  # noqa: BLE001
        failures.append(C.fail(None, "a document produced by toJson is refused: %s: %s" % (type(e).__name__, str(e)[:200]), document=doc, **wit0))
        return {"digest": None, "nontrivial": False, "failures": failures, "counters": counters, "sets": sets}
    digests = []
    doc_digest = O.digest(doc)
    ms = mutants(sp, doc)
    seen_fail = set()
    for kind, path, m in ms:
        if m == doc:
            continue
        counters["mutants:" + kind.split(":")[0]] = counters.get("mutants:" + kind.split(":")[0], 0) + 1
        digests.append(O.digest([doc_digest, path, kind, repr(_safe(m, path))]))
        sets.setdefault("mutation_kinds", set()).add(kind)
        try:
            r = Factory.fromJson(m)
        except Exception as e:  # noqa: BLE001
            counters["rejected:" + type(e).__name__] = counters.get("rejected:" + type(e).__name__, 0) + 1
            continue
        # accepted: say what happened to the content
        try:
            rd = json.loads(json.dumps(r.toJson()))
            d = O.diff(doc, rd, 0.0, exact=True)
            what = "re-serialises identically to the ORIGINAL (mutation silently ignored)" if not d else "re-serialises as: " + C.fmt_diff(d)
        except Exception as e2:  # noqa: BLE001
            what = "and the loaded container cannot even be serialised (%s)" % type(e2).__name__
        sig = (kind, _role_sig(path))
        if sig in seen_fail:
            continue
        seen_fail.add(sig)
        key = None
        if kind in ("number:boolean", "count:boolean"):
            # known-finding candidate: every loader tests numbers with isinstance(x, numbers.Real), which a JSON boolean
            # passes.  Attribute it only if the loader did exactly that - read true as the number 1 (twin document).
            try:
                twin = json.loads(json.dumps(Factory.fromJson(_set(doc, path, 1.0)).toJson()))
                if not O.diff(twin, json.loads(json.dumps(r.toJson())), 0.0, exact=True):
                    key = "json-boolean-read-as-number"
            except Exception:  # noqa: BLE001
                pass
        failures.append(C.fail(key, "malformed document accepted (%s at %s): %s" % (kind, "/".join(map(str, path)), what), mutation=kind, path=path, mutant_value=S.jsonable(_safe(m, path)), **wit0))
    return {
        "digest": None,
        "digests": digests,
        "evaluations": max(len(digests), 1),
        "nontrivial": bool(digests),
        "failures": sorted(failures, key=lambda f_: f_["key"] is not None)[:6],  # unlisted ones first
        "counters": counters,
        "sets": sets,
        "sample": {"stratum": label, "tree": S.describe(sp), "document": doc if len(json.dumps(doc)) < 500 else json.dumps(doc)[:500] + "...", "n_mutants": len(digests), "example_mutations": [[k, "/".join(map(str, p))] for k, p, _ in ms[8:14]]},
    }


def _safe(m, path):
    try:
        return _get(m, path)
    except Exception:  # noqa: BLE001
        return "<deleted>"


def _role_sig(path):
    return tuple(p if isinstance(p, str) and not p.lstrip("-").isdigit() else "#" for p in path[-3:])


def conclusive(agg):
    out = []
    want = ["header:delete-type", "header:version-incompatible", "count:retype", "count:boolean", "number:boolean", "list:to-null", "map:to-null", "list:emptied", "header:version-newer-major", "header:version-newer-minor", "entries:-1", "entries:negative-float", "entries:negative-tiny", "entries:minus-infinity-spelled", "struct:delete-key", "struct:add-key", "struct:fragment-retype", "number:retype", "name:retype", "typename:retype", "typename:unregistered", "list:to-dict", "map:to-list", "sparse-key:non-integer", "element:replace", "element:missing-key"]
    mk = agg.sets.get("mutation_kinds", set())
    miss = [w for w in want if w not in mk]
    if miss:
        out.append("mutation kinds never generated: %s" % ", ".join(miss))
    if not agg.counters.get("originals_accepted"):
        out.append("no original document was loaded")
    miss = [k for k in S.ALL_KINDS if k not in agg.sets.get("kinds", ())]
    if miss:
        out.append("primitives never generated: %s" % ", ".join(miss))
    return out
