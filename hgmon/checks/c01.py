"""C01 - merge is a commutative monoid homomorphism (partition-invariant aggregation).

Monitor: the stream is split into k chunks (empty ones forced regularly); each chunk is filled into a
fresh empty tree (built, or zero() of a filled one, or the Spark helpers increment/combine); partials
are reduced with + along a random schedule (ordering x parenthesisation).  Oracles: (1) the reduced
content equals the fill-everything content (differential on the real code), (2) every intermediate
partial equals the reference model of the union of its chunks (ghost multiset), (3) zero() is a
two-sided identity, (4) commutativity and associativity on the partials.
"""

import functools
import json

from .. import batch as B, env, observe as O, refmodel as R, spec as S
from . import common as C
from ..history import permute_keys

ID = "C01"
LEVEL = "exploration"
TECHNIQUE = "differential monitor (reduce(+) over random partitions/schedules vs single fill) + ghost-multiset reference model on every partial"
RULE = (
    "case i = (tree spec from the stratified table then seeded random trees, stream of 0..12 weighted records over the "
    "critical alphabet, partition into 1..5 chunks with empty chunks forced every 3rd case, random reduction schedule = "
    "random permutation + random binary parenthesisation). distinct = digest(spec, stream, partition, schedule); "
    "non-trivial = quantity-bearing tree, >=2 chunks, >=1 positive-weight record, final comparison evaluated"
    ' Partials are built fresh, from zero(), via increment, from a key-permuted spec, or reloaded from sort_keys JSON.'
)
ASSUMPTIONS = [
    "reference model as in C02; either neighbouring bin accepted inside an edge's rounding band",
    "accumulated fields compared with the scale-aware tolerance of observe.diff",
    "bounded: depth<=4, <=150 nodes, streams<=12, <=5 chunks",
]
FLOOR = 200

_ADD = [
    "primitives.count:Count",
    "primitives.sum:Sum",
    "primitives.average:Average",
    "primitives.deviate:Deviate",
    "primitives.minmax:Minimize",
    "primitives.minmax:Maximize",
    "primitives.bag:Bag",
    "primitives.bin:Bin",
    "primitives.sparselybin:SparselyBin",
    "primitives.centrallybin:CentrallyBin",
    "primitives.irregularlybin:IrregularlyBin",
    "primitives.stack:Stack",
    "primitives.fraction:Fraction",
    "primitives.select:Select",
    "primitives.categorize:Categorize",
    "primitives.collection:Label",
    "primitives.collection:UntypedLabel",
    "primitives.collection:Index",
    "primitives.collection:Branch",
]
REQUIRED = [a + ".__add__" for a in _ADD] + [a + ".zero" for a in _ADD] + ["util:minplus", "util:maxplus", "defs:increment", "defs:combine"]


def plan(tier):
    return 12000 if tier == "quick" else 160000


def budget(tier):
    return 75 if tier == "quick" else 600


def setup(tier):
    C.setup_probes()


def _schedule(rng, n):
    """Random binary tree over a random permutation of range(n) as nested tuples."""
    items = list(range(n))
    rng.shuffle(items)
    while len(items) > 1:
        j = rng.randrange(len(items) - 1)
        items[j : j + 2] = [(items[j], items[j + 1])]
    return items[0]


def _leaves(s):
    if isinstance(s, int):
        return [s]
    return _leaves(s[0]) + _leaves(s[1])


def run_case(i, rng, tier):
    label, sp = C.pick_spec(i, rng, tier)
    n = rng.randint(0, 12)
    o = {}
    unit = i % 5 == 4  # unit weights: exercised through defs.increment / defs.combine
    if unit:
        o = {"nonpos_p": 0.0}
    stream = S.gen_stream(rng, sp, n, o)
    if unit:
        stream = [(r, 1.0) for r, _ in stream]
    vec = i % 4 == 1 and not unit and S.has_quantity(sp)
    if vec:
        # some partials will be filled by fill.numpy: keep the data inside the domain where vectorised and row-wise
        # filling are specified to agree (C03: non-negative weights; string categories; the Sum/NaN known finding aside)
        sum_fields = {nd["f"] for _, nd in S.walk(sp) if nd["k"] == "Sum"}
        clean = []
        for r, w in stream:
            r = dict(r)
            if r["c"] is None or isinstance(r["c"], float):
                r["c"] = "NaN"
            for f in sum_fields:
                if r[f] != r[f]:
                    r[f] = 0.5
            clean.append((r, float(w) if (w == w and w > 0) else 0.0))
        stream = clean
    k = rng.randint(1, 5)
    cuts = sorted(rng.randint(0, n) for _ in range(k - 1))
    if i % 3 == 0 and k >= 2:
        # force an empty chunk
        j = rng.randrange(len(cuts))
        cuts[j] = cuts[j - 1] if j > 0 else 0
        cuts.sort()
    bounds = [0] + cuts + [n]
    chunks = [stream[a:b] for a, b in zip(bounds, bounds[1:])]
    sched = _schedule(rng, k)
    wit = {"tree": S.describe(sp), "spec": sp, "stream": C.stream_json(stream), "chunk_bounds": bounds, "schedule": repr(sched)}
    failures = []
    counters = {"chunks": k, "empty_chunks": sum(1 for c in chunks if not c)}
    sets = {"kinds": S.kinds_in(sp), "root_kind": {sp["k"]}, "schedule_shape": {repr(sched) if k <= 3 else "k=%d" % k}}
    scale = O.scale_of(stream)

    def obs(x):
        # vectorised fills legitimately create sparse bins / categories of zero weight (C03): compare modulo those
        return O.drop_zero_sparse(O.observe(x)) if vec else O.observe(x)

    norm = O.drop_zero_sparse if vec else None
    whole = C.fill_all(S.build(sp), stream)
    whole_obs = obs(whole)

    # zero() of a filled tree is the model of the empty multiset
    z = whole.zero()
    okz, dz, _, _ = R.match(sp, [], obs(z), 1.0, norm=norm)
    counters["zero_checked"] = 1
    if not okz:
        failures.append(C.fail(None, "zero() of a filled tree is not the empty aggregator: %s" % C.fmt_diff(dz), **wit))

    # partials
    import histogrammar.defs as defs

    partials = []
    reloaded = False
    has_keys = any(n["k"] in ("Label", "UntypedLabel") and len(n["pairs"]) > 1 for _, n in S.walk(sp))
    for j, ch in enumerate(chunks):
        mode = (i + j) % 5
        if unit:
            p = functools.reduce(defs.increment, [r for r, _ in ch], whole.zero())
            counters["partials_via_increment"] = counters.get("partials_via_increment", 0) + 1
        elif vec and mode in (1, 2):
            p = S.build(sp)
            bat = B.Batch(B.columns([r for r, _ in ch]), "dict")
            p.fill.numpy(bat.data, B.weights_array([w for _, w in ch]))
            counters["partials_vectorised"] = counters.get("partials_vectorised", 0) + 1
        elif mode == 0:
            p = C.fill_all(whole.zero(), ch)
        elif mode == 3 and has_keys:
            # another worker wrote the keyword members in another order
            p = C.fill_all(S.build(permute_keys(sp, rng)), ch)
            counters["partials_key_permuted"] = counters.get("partials_key_permuted", 0) + 1
        elif mode == 4 and i % 2:
            # a partial that came back from storage written with sort_keys=True
            p = C.fill_all(S.build(sp), ch)
            p = env.hg().Factory.fromJson(json.loads(json.dumps(p.toJson(), sort_keys=True)))
            reloaded = True
            counters["partials_reloaded_sorted"] = counters.get("partials_reloaded_sorted", 0) + 1
        else:
            p = C.fill_all(S.build(sp), ch)
        partials.append(p)

    # the partial results are inputs: whatever is done with the results reduced from them (further merges in place,
    # further fills), they keep the content they had
    partial_texts = [O.text(p_) for p_ in partials]

    def reduce_sched(s):
        if isinstance(s, int):
            return partials[s], list(chunks[s])
        a, sa = reduce_sched(s[0])
        b, sb = reduce_sched(s[1])
        c = a + b
        union = sa + sb
        ok, d, namb, inc = R.match(sp, union, obs(c), O.scale_of(union) if union else 1.0, norm=norm)
        counters["ghost_checks_on_partials"] = counters.get("ghost_checks_on_partials", 0) + 1
        if not ok and not inc:
            failures.append(C.fail(None, "partial %r + %r differs from the model of the union of its chunks: %s" % (s[0], s[1], C.fmt_diff(d)), **wit))
        return c, union

    red, _ = reduce_sched(sched)
    red_obs = obs(red)
    d = O.diff(whole_obs, red_obs, scale)
    counters["final_comparisons"] = 1
    if d:
        failures.append(C.fail(None, "reduce(+) over the chunks differs from filling the whole stream: %s" % C.fmt_diff(d), **wit))

    # left fold with the Spark helper
    if k >= 2:
        left = functools.reduce(defs.combine, partials)
        d = O.diff(whole_obs, obs(left), scale)
        counters["combine_folds"] = 1
        if d:
            failures.append(C.fail(None, "functools.reduce(combine, partials) differs from the whole: %s" % C.fmt_diff(d), **wit))

    # in-place fold (what an accumulator-style reduction does): zero() += p1 += p2 ...
    if k >= 2:
        try:
            acc = whole.zero()
            for p_ in partials:
                acc += p_
            d = O.diff(whole_obs, obs(acc), scale)
            counters["iadd_folds"] = 1
            if d:
                failures.append(C.fail(None, "folding the partials with += into zero() differs from the whole: %s" % C.fmt_diff(d), **wit))
        except Exception as e:  # noqa: BLE001
            failures.append(C.fail(None, "folding the partials with += raised %s: %s" % (type(e).__name__, str(e)[:200]), **wit))

    # the reduced aggregators stay live: further data filled into the whole, the + reduction and the += fold
    # must keep them equal (an accumulator goes on being incremented after a combine)
    if k >= 2 and not failures and not reloaded:
        more = S.gen_stream(rng, sp, rng.randint(1, 3), {"nonpos_p": 0.0})
        try:
            targets = [("whole", whole), ("reduce(+)", red)] + ([("+= fold", acc)] if "acc" in dir() else [])
            for _, t_ in targets:
                for r_, w_ in more:
                    t_.fill(r_, w_)
            ref_obs = obs(whole)
            sc2 = O.scale_of(stream + more)
            for nm_, t_ in targets[1:]:
                d = O.diff(ref_obs, obs(t_), sc2)
                counters["fill_after_reduce_checked"] = counters.get("fill_after_reduce_checked", 0) + 1
                if d:
                    failures.append(C.fail(None, "after filling %d more records the %s result differs from the whole: %s" % (len(more), nm_, C.fmt_diff(d)), more=C.stream_json(more), **wit))
        except Exception as e:  # noqa: BLE001
            failures.append(C.fail(None, "filling after the reduction raised %s: %s" % (type(e).__name__, str(e)[:200]), **wit))

    # in-place folds and the fills that followed must not have reached back into the partial results
    for j_, (p_, t_) in enumerate(zip(partials, partial_texts)):
        counters["partials_checked_unchanged"] = counters.get("partials_checked_unchanged", 0) + 1
        if O.text(p_) != t_:
            d_ = O.diff(json.loads(t_), json.loads(O.text(p_)), 0.0, exact=True)
            failures.append(C.fail(None, "partial result %d changed after it had been merged (+, combine, += into an accumulator) and the results were filled further: %s" % (j_, C.fmt_diff(d_)), **wit))
            break

    # identity, commutativity, associativity on the partials
    a = partials[0]
    a_obs = obs(a)
    sa = O.scale_of(chunks[0]) if chunks[0] else 1.0
    for nm, v in (("h + zero", a + a.zero()), ("zero + h", a.zero() + a)):
        d = O.diff(a_obs, obs(v), sa)
        counters["identity_checked"] = counters.get("identity_checked", 0) + 1
        if d:
            failures.append(C.fail(None, "%s differs from h: %s" % (nm, C.fmt_diff(d)), law=nm, **wit))
    if k >= 2:
        b = partials[1]
        d = O.diff(obs(a + b), obs(b + a), scale)
        counters["commutativity_checked"] = 1
        if d:
            failures.append(C.fail(None, "a + b differs from b + a: %s" % C.fmt_diff(d), law="commutative", **wit))
    if k >= 3:
        b, c = partials[1], partials[2]
        d = O.diff(obs((a + b) + c), obs(a + (b + c)), scale)
        counters["associativity_checked"] = 1
        if d:
            failures.append(C.fail(None, "(a+b)+c differs from a+(b+c): %s" % C.fmt_diff(d), law="associative", **wit))

    nt = C.nontrivial(sp, stream) and k >= 2
    return {
        "digest": C.digest(sp, stream, bounds, repr(sched)),
        "nontrivial": nt,
        "failures": failures,
        "counters": counters,
        "sets": sets,
        "sample": C.case_sample(label, sp, stream, chunk_bounds=bounds, schedule=repr(sched)),
    }


def conclusive(agg):
    out = []
    kinds = agg.sets.get("kinds", set())
    miss = [k for k in S.ALL_KINDS if k not in kinds]
    if miss:
        out.append("primitives never generated: %s" % ", ".join(miss))
    for c in ("empty_chunks", "associativity_checked", "commutativity_checked", "partials_via_increment", "combine_folds", "partials_key_permuted", "partials_reloaded_sorted", "partials_vectorised"):
        if not agg.counters.get(c):
            out.append("never exercised: %s" % c)
    return out
