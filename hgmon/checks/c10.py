"""C10 - incompatible aggregators are never merged silently.

Monitor: spec mutation operators produce pairs (s, s') that differ in the primitive type of one node
or in exactly one structural parameter at any depth (bin count / range, bin width / origin, a centre,
a threshold, Bag range, label key set, collection size, child type).  Both trees are built and brought
to random reachable states (including empty); for both operand orders and for + and += the merge must
raise, and both operands must be textually identical before and after (frame monitor).  The event log
records the exception type and whether the merge reached the mismatching position.
"""

import copy

from .. import observe as O, refmodel as R, spec as S
from . import common as C

ID = "C10"
LEVEL = "exploration"
TECHNIQUE = "structural-mutant pair monitor: + and += on mismatched pairs must raise, with before/after frame snapshots of both operands"
RULE = (
    "case = (tree spec from the stratified table then random trees, one structural mutation at a uniformly chosen node: kind change, "
    "num/low/high, binWidth/origin, one centre, one threshold, Bag range, label key, collection size; both trees filled with 0..8 "
    "records each; 4 merges: a+b, b+a, a+=b, b+=a). distinct = digest(spec, mutation, streams); non-trivial = the four merges "
    "were attempted on a structurally different pair"
    ' Mutations include wrapping a node in Select/Fraction/Index/Branch/Label or unwrapping a Select; every 20th case merges Stack.build / Fraction.build operands (built vs declared, one level more, mismatched members).'
)
ASSUMPTIONS = [
    "any exception type counts as rejection (the statement says 'raises an exception')",
    "the two specs really differ structurally: the mutated pair's empty documents differ in a non-name field",
]
FLOOR = 200

_P = ["count:Count", "sum:Sum", "average:Average", "deviate:Deviate", "minmax:Minimize", "minmax:Maximize", "bag:Bag", "bin:Bin", "sparselybin:SparselyBin", "centrallybin:CentrallyBin", "irregularlybin:IrregularlyBin", "stack:Stack", "fraction:Fraction", "select:Select", "categorize:Categorize", "collection:Label", "collection:UntypedLabel", "collection:Index", "collection:Branch"]
REQUIRED = ["primitives.%s.__add__" % p for p in _P] + ["primitives.%s.__iadd__" % p for p in _P]


def plan(tier):
    return 10000 if tier == "quick" else 120000


def budget(tier):
    return 75 if tier == "quick" else 600


def setup(tier):
    C.setup_probes()


SIBLING = {"Label": "UntypedLabel", "UntypedLabel": "Label", "Index": "Branch", "Branch": "Index", "IrregularlyBin": "Stack", "Stack": "IrregularlyBin"}


def _sibling_ok(n):
    if n["k"] == "UntypedLabel":
        return len({S.describe(v).split("(")[0] for v in n["pairs"].values()}) == 1
    if n["k"] == "Branch":
        return len({S.describe(v).split("(")[0] for v in n["values"]}) == 1
    return True


def _swappable(n):
    """Do the first two members of a Label differ structurally (empty documents differ in a non-name field)?"""
    keys = list(n["pairs"])
    a, b = n["pairs"][keys[0]], n["pairs"][keys[1]]
    try:
        da, db = R.ref_doc(a, []), R.ref_doc(b, [])
    except Exception:  # noqa: BLE001
        return False
    return bool(O.diff(O.canon(da), O.canon(db), 0.0, drop_names=True, exact=True))


def mutate_spec(rng, sp):
    """Return (mutated spec, description, path) differing from sp in one structural parameter."""
    nodes = list(S.walk(sp))
    rng.shuffle(nodes)
    for path, n in nodes:
        k = n["k"]
        choice = rng.random()
        m = copy.deepcopy(n)
        desc = None
        if choice < 0.25:
            # change the primitive type of this node
            others = [x for x in S.CHILD_KINDS if not x.startswith(k) and not (k == "Count" and x == "CountT")]
            nk = rng.choice(others)
            m = S.default_child(nk, rng, {})
            desc = "type %s -> %s" % (k, m["k"])
        elif choice < 0.31 and k in SIBLING and _sibling_ok(n):
            # the sibling type with the very same parameters and children (the two share one JSON layout):
            # only the type tells them apart
            m["k"] = SIBLING[k]
            desc = "sibling type %s -> %s" % (k, m["k"])
        elif choice < 0.38:
            # the same node behind a wrapper (Select forwards unknown attributes to its cut, so a duck-typed merge
            # would find every attribute it looks for), or a wrapper removed
            if k == "Select":
                m = copy.deepcopy(n["cut"])
                desc = "Select unwrapped"
            else:
                w = rng.choice(["Select", "Select", "Fraction", "Index", "Branch", "Label"])
                inner = copy.deepcopy(n)
                if w == "Select":
                    m = {"k": "Select", "f": rng.choice(S.SELF), "qf": "lambda", "cut": inner}
                elif w == "Fraction":
                    m = {"k": "Fraction", "f": rng.choice(S.SELF), "qf": "lambda", "value": inner}
                elif w == "Label":
                    m = {"k": "Label", "pairs": {"a": inner}}
                else:
                    m = {"k": w, "values": [inner]}
                desc = "wrapped in " + w
        elif k == "Bin":
            which = rng.choice(["num", "low", "high"])
            tiny = rng.random() < 0.25
            if which == "num":
                m["num"] = n["num"] + 1
            elif which == "low":
                m["low"] = n["low"] - (1e-13 if tiny and n["low"] - 1e-13 != n["low"] else 0.5)
            else:
                m["high"] = n["high"] + (1e-13 if tiny and n["high"] + 1e-13 != n["high"] else 0.5)
            desc = "Bin." + which
        elif k == "SparselyBin":
            which = rng.choice(["bw", "origin"])
            m[which] = n[which] + rng.choice([0.25, 0.25, 1e-13])
            if m[which] == n[which]:
                m[which] = n[which] + 0.25
            desc = "SparselyBin." + which
        elif k == "CentrallyBin":
            if rng.random() < 0.5:
                cs = sorted(n["centers"])
                cs[rng.randrange(len(cs))] += 0.125
                m["centers"] = cs
                desc = "CentrallyBin centre value"
            else:
                m["centers"] = sorted(n["centers"]) + [max(n["centers"]) + 7.0]
                desc = "CentrallyBin centre count"
        elif k in ("IrregularlyBin", "Stack"):
            es = list(n["edges"])
            if es and rng.random() < 0.5:
                es[rng.randrange(len(es))] += 0.0625
                desc = k + " threshold value"
            else:
                es = es + [(max(es) if es else 0.0) + 7.0]
                desc = k + " threshold count"
            m["edges"] = es
        elif k == "Bag":
            m["range"] = rng.choice([r for r in ("N", "N2", "S", "N3") if r != n["range"]])
            if m["range"] == "S":
                m["f"] = "t"
            elif n["range"] == "S":
                m["f"] = "x"
            if m["range"] in ("N2", "N3"):
                m["f2"] = "y"
            desc = "Bag.range %s -> %s" % (n["range"], m["range"])
        elif k in ("Label", "UntypedLabel") and len(n["pairs"]) >= 2 and rng.random() < 0.4 and _swappable(n):
            # the same labels listed in the opposite order with the members exchanged: position by position the two
            # operands match, label by label they do not
            keys = list(n["pairs"])
            k1, k2 = keys[0], keys[1]
            rest = [(kk, n["pairs"][kk]) for kk in keys[2:]]
            m["pairs"] = dict([(k2, n["pairs"][k1]), (k1, n["pairs"][k2])] + rest)
            desc = k + " members exchanged under permuted labels"
        elif k in ("Label", "UntypedLabel"):
            keys = list(n["pairs"])
            if rng.random() < 0.5 or len(keys) == 1:
                old = rng.choice(keys)
                m["pairs"] = {(kk + "_x" if kk == old else kk): v for kk, v in n["pairs"].items()}
                desc = k + " key renamed"
            else:
                old = rng.choice(keys)
                m["pairs"] = {kk: v for kk, v in n["pairs"].items() if kk != old}
                desc = k + " key removed"
        elif k in ("Index", "Branch"):
            m["values"] = list(n["values"]) + [copy.deepcopy(n["values"][-1])]
            desc = k + " size"
        if desc is None:
            continue
        if m.get("k") == "Bag" and m.get("range") == "N3":
            continue
        return S.set_at(sp, path, m), desc, path
    return None, None, None


def _sig(kind, frag):
    """Structure signature of a document fragment: what a JSON reload still knows about the shape of an
    aggregator.  None = unknown (an empty sparse container only records the type name of its bins)."""
    if kind == "Count" or not isinstance(frag, dict):
        return ("Count",)
    if kind in S.LEAF_Q:
        return (kind,)
    if kind == "Bag":
        return ("Bag", frag["range"])
    if kind == "Bin":
        return ("Bin", frag["low"], frag["high"], len(frag["values"]), _sig(frag["values:type"], frag["values"][0]), tuple(_sig(frag[f + ":type"], frag[f]) for f in ("underflow", "overflow", "nanflow")))
    if kind == "SparselyBin":
        inner = _sig(frag["bins:type"], next(iter(frag["bins"].values()))) if frag["bins"] else None
        return ("SparselyBin", frag["binWidth"], frag["origin"], frag["bins:type"], inner, _sig(frag["nanflow:type"], frag["nanflow"]))
    if kind == "Categorize":
        inner = _sig(frag["bins:type"], next(iter(frag["bins"].values()))) if frag["bins"] else None
        return ("Categorize", frag["bins:type"], inner)
    if kind in ("CentrallyBin", "IrregularlyBin", "Stack"):
        key = "center" if kind == "CentrallyBin" else "atleast"
        return (kind, tuple(b[key] for b in frag["bins"]), _sig(frag["bins:type"], frag["bins"][0]["data"]), _sig(frag["nanflow:type"], frag["nanflow"]))
    if kind == "Fraction":
        return ("Fraction", _sig(frag["sub:type"], frag["numerator"]))
    if kind == "Select":
        return ("Select", _sig(frag["sub:type"], frag["data"]))
    if kind == "Label":
        return ("Label", tuple(sorted((k, _sig(frag["sub:type"], v)) for k, v in frag["data"].items())))
    if kind == "UntypedLabel":
        return ("UntypedLabel", tuple(sorted((k, _sig(v["type"], v["data"])) for k, v in frag["data"].items())))
    if kind == "Index":
        return ("Index", tuple(_sig(frag["sub:type"], v) for v in frag["data"]))
    if kind == "Branch":
        return ("Branch", tuple(_sig(v["type"], v["data"]) for v in frag["data"]))
    return (kind,)


def _sig_differs(a, b):
    """Do two signatures differ somewhere both of them know about?"""
    if a is None or b is None:
        return False
    if isinstance(a, tuple) and isinstance(b, tuple):
        if len(a) != len(b):
            return True
        return any(_sig_differs(x, y) for x, y in zip(a, b))
    return a != b


def _built_case(i, rng, tier):
    """Operands assembled by Stack.build / Fraction.build: a built Stack against a declared Stack with as many levels
    (its thresholds are numbers, the built one's are NaN), against a built Stack with one more level, and built
    aggregators whose members differ in one structural parameter.  Every such merge must raise."""
    from .. import env

    hg = env.hg()
    label, sp = C.pick_spec(i // 20, rng, tier)
    k = rng.randint(1, 3)
    streams = [S.gen_stream(rng, sp, rng.choice([0, 2, 4])) for _ in range(k)]
    pairs = []
    declared = {"k": "Stack", "f": rng.choice(S.NUMF), "qf": "lambda", "edges": [float(j) for j in range(k - 1)], "value": sp, "nan": {"k": "Count"}}
    pairs.append(("built Stack vs declared Stack with the same number of levels", lambda: C.built_state(sp, streams, "stack"), lambda: C.fill_all(S.build(declared), streams[0])))
    pairs.append(("built Stack vs built Stack with one more level", lambda: C.built_state(sp, streams, "stack"), lambda: C.built_state(sp, streams + [streams[0]], "stack")))
    sp2, desc, path = mutate_spec(rng, sp)
    if sp2 is not None:
        s2 = [S.gen_stream(rng, sp2, rng.choice([0, 2, 4])) for _ in range(k)]
        for bk in ("stack", "fraction"):
            pairs.append(("%s-built from members that differ (%s)" % (bk, desc), lambda bk=bk: C.built_state(sp, streams, bk), lambda bk=bk: C.built_state(sp2, s2, bk)))
    failures = []
    counters = {}
    wit = {"tree": S.describe(sp), "spec": sp, "levels": k, "mutation": desc, "streams": [C.stream_json(st) for st in streams]}
    for what, mka, mkb in pairs:
        for op, order in (("+", "ab"), ("+", "ba"), ("+=", "ab"), ("+=", "ba")):
            try:
                a, b = mka(), mkb()
            except Exception:  # noqa: BLE001
                counters["built_pair_not_constructible"] = counters.get("built_pair_not_constructible", 0) + 1
                break
            x, y = (a, b) if order == "ab" else (b, a)
            tx, ty = O.text(x), O.text(y)
            try:
                if op == "+":
                    x + y
                else:
                    x += y
                raised = False
            except Exception:  # noqa: BLE001
                raised = True
            counters["built_merges_attempted"] = counters.get("built_merges_attempted", 0) + 1
            counters["merges_attempted"] = counters.get("merges_attempted", 0) + 1
            if not raised:
                failures.append(C.fail(None, "merge of %s with %s (%s) returned instead of raising" % (what, op, order), op=op, order=order, **wit))
            elif O.text(y) != ty or (op == "+" and O.text(x) != tx):
                failures.append(C.fail(None, "rejected %s of %s (%s) changed an operand" % (op, what, order), op=op, order=order, **wit))
    return {
        "digest": C.digest(sp, k, desc, wit["streams"]),
        "nontrivial": counters.get("built_merges_attempted", 0) > 0,
        "failures": failures[:4],
        "counters": counters,
        "sets": {"mutation": {"built operands"}, "kinds": S.kinds_in(sp), "depth": {"0"}},
        "sample": {"stratum": "built:" + label, "tree": S.describe(sp), "levels": k, "mutation": desc},
    }


def _sibling_case(i, rng, tier):
    """Pairs of sibling types that share one JSON layout (IrregularlyBin / Stack, Label / UntypedLabel, Index / Branch)
    with identical parameters and children that the library re-classes for plotting (Bin / SparselyBin of Count, bare or
    behind a Select), in every combination of live / reloaded / reloaded-and-scaled operands: only the type differs, and
    every merge must raise."""
    import copy

    inner = rng.choice([
        {"k": "Bin", "num": 3, "low": 0.0, "high": 3.0, "f": "x", "qf": "lambda", "value": {"k": "Count"}, "under": {"k": "Count"}, "over": {"k": "Count"}, "nan": {"k": "Count"}},
        {"k": "SparselyBin", "bw": 1.0, "origin": 0.0, "f": "x", "qf": "lambda", "value": {"k": "Count"}, "nan": {"k": "Count"}},
        {"k": "Count"},
        {"k": "Sum", "f": "y", "qf": "lambda"},
    ])
    if inner["k"] in ("Bin", "SparselyBin") and rng.random() < 0.4:
        inner = {"k": "Select", "f": "p", "qf": "lambda", "cut": inner}
    fam = rng.choice(["IrregularlyBin", "Label", "Index"])
    if fam == "IrregularlyBin":
        sp = {"k": "IrregularlyBin", "f": "y", "qf": "lambda", "edges": [0.0, 1.0], "value": inner, "nan": {"k": "Count"}}
    elif fam == "Label":
        sp = {"k": "Label", "pairs": {"a": inner, "b": copy.deepcopy(inner)}}
    else:
        sp = {"k": "Index", "values": [inner, copy.deepcopy(inner)]}
    sp2 = copy.deepcopy(sp)
    sp2["k"] = SIBLING[sp["k"]]
    if rng.random() < 0.5:
        sp, sp2 = sp2, sp
    if rng.random() < 0.4:
        sp, sp2 = ({"k": "Label", "pairs": {"m": s_}} for s_ in (sp, sp2))
    sa = S.gen_stream(rng, sp, rng.choice([0, 3, 6]), {"nonpos_p": 0.0})
    sb = S.gen_stream(rng, sp2, rng.choice([0, 3, 6]), {"nonpos_p": 0.0})
    failures, counters = [], {}
    wit = {"tree": S.describe(sp), "other": S.describe(sp2), "spec": sp, "spec2": sp2, "stream_a": C.stream_json(sa), "stream_b": C.stream_json(sb)}

    def derive(x, how):
        if "reload" in how:
            x = x.toImmutable()
        if "scale" in how:
            x = x * 2.0
        return x

    for ha in ("live", "reload", "reload+scale"):
        for hb in ("live", "reload"):
            for op, order in (("+", "ab"), ("+", "ba"), ("+=", "ab"), ("+=", "ba")):
                a = derive(C.fill_all(S.build(sp), sa), ha)
                b = derive(C.fill_all(S.build(sp2), sb), hb)
                x, y = (a, b) if order == "ab" else (b, a)
                ty = O.text(y)
                try:
                    if op == "+":
                        x + y
                    else:
                        x += y
                    raised = False
                except Exception:  # noqa: BLE001
                    raised = True
                counters["sibling_merges_attempted"] = counters.get("sibling_merges_attempted", 0) + 1
                counters["merges_attempted"] = counters.get("merges_attempted", 0) + 1
                if not raised:
                    failures.append(C.fail(None, "merge of sibling types (%s %s %s, operands %s / %s, order %s) returned instead of raising" % (sp["k"], op, sp2["k"], ha, hb, order), op=op, order=order, states=[ha, hb], **wit))
                elif O.text(y) != ty:
                    failures.append(C.fail(None, "rejected merge of sibling types changed its right operand", op=op, order=order, **wit))
    return {
        "digest": C.digest(sp, sp2, wit["stream_a"], wit["stream_b"]),
        "nontrivial": True,
        "failures": failures[:4],
        "counters": counters,
        "sets": {"mutation": {"sibling layout"}, "kinds": S.kinds_in(sp), "depth": {"0"}},
        "sample": {"stratum": "sibling-layout", "tree": S.describe(sp), "other": S.describe(sp2)},
    }


def run_case(i, rng, tier):
    if i % 20 == 19:
        return _built_case(i, rng, tier) if (i // 20) % 2 == 0 else _sibling_case(i, rng, tier)
    label, sp = C.pick_spec(i, rng, tier)
    sp2, desc, path = mutate_spec(rng, sp)
    if sp2 is None:
        sp2, desc, path = S.default_child("Sum" if sp["k"] != "Sum" else "Average", rng, {}), "type at root", ()
    failures = []
    counters = {}
    depth = len(path)
    sets = {"mutation": {desc.split(" ->")[0] if desc else "?"}, "kinds": S.kinds_in(sp), "depth": {str(min(depth, 4))}}
    try:
        a0, b0 = S.build(sp), S.build(sp2)
    except Exception as e:  # noqa: BLE001
        return {"digest": C.digest(sp, desc), "nontrivial": False, "failures": [], "counters": {"mutant_not_constructible": 1}, "sets": sets}
    if not O.diff(O.observe(a0), O.observe(b0), 0.0, drop_names=True, exact=True):
        # e.g. a sparse container whose differing content type only shows once filled: fill both below
        counters["empty_documents_equal"] = 1
    sa = S.gen_stream(rng, sp, rng.choice([0, 0, 3, 8]))
    sb = S.gen_stream(rng, sp2, rng.choice([0, 0, 3, 8]))
    wit = {"tree": S.describe(sp), "other": S.describe(sp2), "spec": sp, "spec2": sp2, "mutation": desc, "path": list(path), "stream_a": C.stream_json(sa), "stream_b": C.stream_json(sb)}
    # operand states: live, or reloaded from JSON (a reachable state: no value templates, no quantities)
    # operand states: live, or derived by a short chain of reload / scale / copy / pickle (all reachable states)
    CHAINS = [(), (), (), ("reload",), ("reload",), ("scale",), ("copy",), ("pickle",), ("reload", "scale"), ("scale", "reload"), ("reload", "copy"), ("reload", "scale", "reload")]
    chain_a, chain_b = rng.choice(CHAINS), rng.choice(CHAINS)
    if S.has_transform(sp) or S.has_transform(sp2):
        chain_a = tuple(c for c in chain_a if c != "scale")
        chain_b = tuple(c for c in chain_b if c != "scale")
    reload_a, reload_b = "reload" in chain_a, "reload" in chain_b
    wit["reloaded"] = [list(chain_a), list(chain_b)]
    counters["reloaded_operands"] = int(reload_a) + int(reload_b)
    for ch_ in (chain_a, chain_b):
        counters["operand_state:" + ("+".join(ch_) or "live")] = counters.get("operand_state:" + ("+".join(ch_) or "live"), 0) + 1

    def derive(x, chain):
        import pickle

        for step in chain:
            if step == "reload":
                x = x.toImmutable()
            elif step == "scale":
                x = x * 2.0
            elif step == "copy":
                x = x.copy()
            elif step == "pickle":
                x = pickle.loads(pickle.dumps(x))
        return x
    tol = 1e-12 if rng.random() < 0.3 else 0.0
    wit["tolerance"] = tol
    for op, order in (("+", "ab"), ("+", "ba"), ("+=", "ab"), ("+=", "ba")):
        try:
            a = C.fill_all(S.build(sp), sa)
            b = C.fill_all(S.build(sp2), sb)
            a = derive(a, chain_a)
            b = derive(b, chain_b)
        except Exception:  # noqa: BLE001
            return {"digest": C.digest(sp, desc), "nontrivial": False, "failures": [], "counters": {"mutant_not_fillable": 1}, "sets": sets}
        if reload_a or reload_b:
            # after a reload an empty sparse container only knows the type name of its bins: demand rejection
            # only where the difference is still present in the state of the operands
            # decided on the documents the *specification* assigns to the two states (reference model), not on what
            # the code under test serialises: a reload that comes back as another type must not excuse itself
            da, db = O.canon(R.ref_doc(sp, sa)), O.canon(R.ref_doc(sp2, sb))
            if not (da["type"] != db["type"] or _sig_differs(_sig(da["type"], da["data"]), _sig(db["type"], db["data"]))):
                counters["difference_not_in_reloaded_state"] = counters.get("difference_not_in_reloaded_state", 0) + 1
                continue
        x, y = (a, b) if order == "ab" else (b, a)
        tx, ty = O.text(x), O.text(y)
        raised = None
        result = None
        import histogrammar.util as util_

        # the comparison tolerances a user may set for == (the library's own tests use 1e-12) are not a licence to merge
        util_.relativeTolerance = util_.absoluteTolerance = tol
        try:
            if op == "+":
                result = x + y
            else:
                x += y
                result = x
        except Exception as e:  # noqa: BLE001
            raised = e
        finally:
            util_.relativeTolerance = util_.absoluteTolerance = 0.0
        counters["merges_attempted"] = counters.get("merges_attempted", 0) + 1
        if tol:
            counters["merges_under_nonzero_tolerance"] = counters.get("merges_under_nonzero_tolerance", 0) + 1
        name = "%s %s %s" % ("left" if order == "ab" else "right(mutant)", op, "mutant" if order == "ab" else "left")
        if raised is None:
            try:
                rtxt = O.text(result)[:300]
            except Exception as e2:  # noqa: BLE001
                rtxt = "<result cannot even be serialised: %s>" % type(e2).__name__
            key = None
            failures.append(C.fail(key, "merge of structurally different aggregators (%s, depth %d) with %s (%s) returned instead of raising: %s" % (desc, depth, op, order, rtxt), op=op, order=order, **wit))
            continue
        counters["rejected:" + type(raised).__name__] = counters.get("rejected:" + type(raised).__name__, 0) + 1
        ax, ay = O.text(x), O.text(y)
        if ay != ty:
            failures.append(C.fail(None, "rejected %s (%s, %s) changed its right operand" % (op, desc, order), op=op, order=order, **wit))
        if ax != tx:
            key = None
            if op == "+=":
                # known-finding candidate: the in-place variant updates entries / earlier children before the
                # nested mismatch raises.  Attribute it only if the pure + on the same pair raises and leaves
                # both operands untouched (neutraliser).
                a2 = C.fill_all(S.build(sp), sa)
                b2 = C.fill_all(S.build(sp2), sb)
                a2 = derive(a2, chain_a)
                b2 = derive(b2, chain_b)
                x2, y2 = (a2, b2) if order == "ab" else (b2, a2)
                t2x, t2y = O.text(x2), O.text(y2)
                try:
                    x2 + y2
                    clean = False
                except Exception:  # noqa: BLE001
                    clean = O.text(x2) == t2x and O.text(y2) == t2y
                if clean:
                    key = "iadd-partial-update-on-rejected-merge"
            d = O.diff(O.canon(__import__("json").loads(tx)), O.canon(__import__("json").loads(ax)), 0.0, exact=True)
            failures.append(C.fail(key, "rejected %s (%s at depth %d, %s) left its left operand changed: %s" % (op, desc, depth, order, C.fmt_diff(d)), op=op, order=order, **wit))
    return {
        "digest": C.digest(sp, desc, list(path), wit["stream_a"], wit["stream_b"], wit["reloaded"]),
        "nontrivial": counters.get("merges_attempted", 0) >= 1,
        "failures": failures[:4],
        "counters": counters,
        "sets": sets,
        "sample": {"stratum": label, "tree": S.describe(sp), "mutation": desc, "at": "/".join(path) or "<root>", "other": S.describe(sp2), "fills": [len(sa), len(sb)]},
    }


def conclusive(agg):
    out = []
    if not agg.counters.get("merges_attempted"):
        out.append("no merge attempted")
    if not agg.counters.get("sibling_merges_attempted"):
        out.append("no merge of sibling-layout pairs attempted")
    if not agg.counters.get("built_merges_attempted"):
        out.append("no merge of Stack.build / Fraction.build operands attempted")
    for d in ("0", "1", "2"):
        if d not in agg.sets.get("depth", ()):
            out.append("no mutation at depth " + d)
    return out
