"""C02 - fill computes the specified function of the weighted multiset of data.

Monitor: every fill(datum, w) runs under the fan-out probe; the state after the stream is compared
with the independent exact-rational reference model; a fill with w <= 0 / NaN must leave the
document text unchanged; three orders of the stream must agree.
"""

from .. import observe as O, probes, refmodel as R, spec as S
from . import common as C

ID = "C02"
LEVEL = "exploration"
TECHNIQUE = "reference-model monitor over recorded fill events + fan-out call-trace probe + permutation differential"
RULE = (
    "case i = (tree spec from the stratified table (container x position x child kind, all 19 primitives) "
    "then seeded random trees depth<=3/4, stream of 0..16 (record, weight) over the per-tree critical alphabet: "
    "every edge/threshold/midpoint +-3ulp, NaN, +-inf, -0.0, None/NaN categories; weights dyadic, 0, negative, NaN). "
    "distinct = digest of (spec, stream); non-trivial = tree has a quantity-bearing node and >=1 record has weight>0 "
    "and the reference-model comparison was evaluated"
    ' Each stream is also filled once more with its numbers re-typed (Python/numpy integers, float64, float32 NaN).'
)
ASSUMPTIONS = [
    "reference model (hgmon/refmodel.py) is a faithful restatement of the Histogrammar specification as worded in C02",
    "inside the rounding band of an equal-width edge either neighbouring bin is accepted",
    "accumulated fields compared with |a-b| <= 1e-9*max(|a|,|b|) + 1e-9*max(1,W)*max(1,M^2)",
    "bounded: depth<=4, <=150 nodes, streams<=16",
]
FLOOR = 200

REQUIRED = [
    "primitives.count:Count.fill",
    "primitives.sum:Sum.fill",
    "primitives.average:Average.fill",
    "primitives.deviate:Deviate.fill",
    "primitives.minmax:Minimize.fill",
    "primitives.minmax:Maximize.fill",
    "primitives.bag:Bag.fill",
    "primitives.bag:Bag._update",
    "primitives.bin:Bin.fill",
    "primitives.bin:Bin.bin",
    "primitives.sparselybin:SparselyBin.fill",
    "primitives.sparselybin:SparselyBin.bin",
    "primitives.centrallybin:CentrallyBin.fill",
    "primitives.centrallybin:CentrallyBin.index",
    "primitives.irregularlybin:IrregularlyBin.fill",
    "primitives.stack:Stack.fill",
    "primitives.fraction:Fraction.fill",
    "primitives.select:Select.fill",
    "primitives.categorize:Categorize.fill",
    "primitives.collection:Label.fill",
    "primitives.collection:UntypedLabel.fill",
    "primitives.collection:Index.fill",
    "primitives.collection:Branch.fill",
]

ROUTING_REQUIRED = [
    "Bin.underflow",
    "Bin.overflow",
    "Bin.nanflow",
    "Bin.first",
    "Bin.last",
    "Bin.exact-edge",
    "Bin.band",
    "SparselyBin.nanflow",
    "SparselyBin.negative",
    "SparselyBin.saturated",
    "CentrallyBin.nanflow",
    "CentrallyBin.tie",
    "IrregularlyBin.nanflow",
    "IrregularlyBin.on-threshold",
    "Stack.nanflow",
    "Stack.on-threshold",
    "Categorize.NaN",
]


def plan(tier):
    return 8000 if tier == "quick" else 120000


def budget(tier):
    return 75 if tier == "quick" else 600


def setup(tier):
    C.setup_probes()


def _wclass(w):
    if w != w:
        return "nan"
    if w == 0:
        return "zero"
    return "negative"


def run_case(i, rng, tier):
    label, sp = C.pick_spec(i, rng, tier)
    n = rng.randint(0, 16) if i % 7 else rng.randint(0, 3)
    stream = S.gen_stream(rng, sp, n, {"cat_bool": True})
    failures = []
    counters = {}
    sets = {"routing": R.routing_classes(sp, stream), "root_kind": {sp["k"]}, "kinds": S.kinds_in(sp), "stratum": {label.split("<-")[0]}}
    wit = {"tree": S.describe(sp), "spec": sp, "stream": C.stream_json(stream)}

    h = S.build(sp)
    before = O.text(h)
    broke = False
    for j, (r, w) in enumerate(stream):
        roots, exc = probes.traced_fill(h, r, w)
        if exc is not None:
            failures.append(C.fail(None, "fill raised %s: %s at stream position %d" % (type(exc).__name__, str(exc)[:200], j), position=j, **wit))
            broke = True
            break
        for c in roots:
            for v in probes.fanout_violations(c, counters=counters):
                failures.append(C.fail(None, "fan-out probe: %s (stream position %d)" % (v, j), position=j, **wit))
        after = O.text(h)
        if not R.gate(w):
            counters["gate_checked:" + _wclass(w)] = counters.get("gate_checked:" + _wclass(w), 0) + 1
            if after != before:
                failures.append(C.fail(None, "fill with weight %r changed the aggregator" % (w,), position=j, **wit))
        before = after
    if broke:
        return {"failures": failures, "counters": counters, "sets": sets, "digest": C.digest(sp, stream), "nontrivial": False}

    scale = O.scale_of(stream)
    obs = O.observe(h)
    ok, d, namb, inc = R.match(sp, stream, obs, scale)
    counters["model_comparisons"] = 1
    counters["model_comparisons_with_band"] = 1 if namb else 0
    if inc:
        counters["model_inconclusive_too_many_band_values"] = 1
    elif not ok:
        # locate the first deviating datum
        first = None
        for j in range(1, len(stream) + 1):
            hj = C.fill_all(S.build(sp), stream[:j])
            okj, _, _, _ = R.match(sp, stream[:j], O.observe(hj), O.scale_of(stream[:j]))
            if not okj:
                first = j - 1
                break
        failures.append(C.fail(None, "state differs from the specification: %s (first deviating datum: position %s)" % (C.fmt_diff(d), first), position=first, diff=S.jsonable(d[:5]), **wit))

    # order independence: two more orders
    for _ in range(2):
        perm = list(stream)
        rng.shuffle(perm)
        h2 = C.fill_all(S.build(sp), perm)
        dd = O.diff(obs, O.observe(h2), scale)
        counters["permutations_compared"] = counters.get("permutations_compared", 0) + 1
        if dd:
            failures.append(C.fail(None, "result depends on fill order: %s" % C.fmt_diff(dd), perm=C.stream_json(perm), **wit))
            break

    # the same numbers arriving as other numeric types (elements of integer columns, numpy booleans, float32 NaN)
    typed = [(S.retype_record(rng, r), w) for r, w in stream]
    try:
        h3 = C.fill_all(S.build(sp), typed)
        dd = O.diff(obs, O.observe(h3), scale)
        counters["typed_streams_compared"] = 1
        if dd:
            failures.append(C.fail(None, "result depends on the numeric type of the quantity values: %s" % C.fmt_diff(dd), typed=[[{f: type(v).__name__ for f, v in r.items()}, S.jsonable(w)] for r, w in typed][:8], **wit))
    except Exception as e:  # noqa: BLE001
        failures.append(C.fail(None, "fill of the same numbers as other numeric types raised %s: %s" % (type(e).__name__, str(e)[:200]), typed=[[{f: type(v).__name__ for f, v in r.items()}, S.jsonable(w)] for r, w in typed][:8], **wit))

    nt = C.nontrivial(sp, stream) and not inc
    return {
        "digest": C.digest(sp, stream),
        "nontrivial": nt,
        "failures": failures,
        "counters": counters,
        "sets": sets,
        "sample": C.case_sample(label, sp, stream, model_band_values=namb),
    }


def conclusive(agg):
    out = []
    miss = [r for r in ROUTING_REQUIRED if r not in agg.sets.get("routing", ())]
    if miss:
        out.append("routing outcome classes never observed: %s" % ", ".join(miss))
    for c in ("zero", "negative", "nan"):
        if not agg.counters.get("gate_checked:" + c):
            out.append("weight gate never exercised with class %s" % c)
    kinds = agg.sets.get("kinds", set())
    miss = [k for k in S.ALL_KINDS if k not in kinds]
    if miss:
        out.append("primitives never generated: %s" % ", ".join(miss))
    return out
