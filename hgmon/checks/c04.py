"""C04 - JSON serialisation is lossless, strict and yields a fully usable container.

Monitor: for a state h reached by fill / + / * / copy with document d = h.toJson():
json.dumps(d, allow_nan=False) must succeed; Factory.fromJson by three routes (dict, string, file)
must re-serialise to exactly d and compare equal to h.toImmutable(); and the reload must be
interchangeable with the original: op(reload).toJson() == op(h).toJson() for
op in {x+x, x+h, h+x, x*f, x.zero(), x.copy(), fromJson(x.toJson())}.
"""

import json
import os

from .. import env, observe as O, refmodel as R, spec as S
from . import common as C

ID = "C04"
LEVEL = "exploration"
TECHNIQUE = "round-trip fix-point monitor on recorded toJson/fromJson events + lock-step differential of algebra on reload vs original"
RULE = (
    "case i = (tree spec: each entry of the stratified table (container x position x child kind) twice - once still empty, "
    "once filled - then seeded random trees; state reached by one of {fill, fill then +, fill then *f, fill then copy(), "
    "merge of two fills}; contents include NaN/+-inf, negative sparse indexes, hostile category/label strings, named and "
    "unnamed quantities). distinct = digest(spec, stream, state kind); non-trivial = the three reload routes and the seven "
    "algebra comparisons were all evaluated (empty states count: empty sparse containers are a target of the property)"
)
ASSUMPTIONS = [
    "documents are compared as JSON values (2 and 2.0 are the same number; key order irrelevant), every field exactly",
    "categories are strings or None/NaN (bool categories serialise to 'True'/'False' strings by design and are not generated)",
    "bounded: depth<=4, <=150 nodes, streams<=10",
]
FLOOR = 200

_P = [
    "primitives.count:Count",
    "primitives.sum:Sum",
    "primitives.average:Average",
    "primitives.deviate:Deviate",
    "primitives.minmax:Minimize",
    "primitives.minmax:Maximize",
    "primitives.bag:Bag",
    "primitives.bin:Bin",
    "primitives.sparselybin:SparselyBin",
    "primitives.centrallybin:CentrallyBin",
    "primitives.irregularlybin:IrregularlyBin",
    "primitives.stack:Stack",
    "primitives.fraction:Fraction",
    "primitives.select:Select",
    "primitives.categorize:Categorize",
    "primitives.collection:Label",
    "primitives.collection:UntypedLabel",
    "primitives.collection:Index",
    "primitives.collection:Branch",
]
REQUIRED = (
    [p + ".toJsonFragment" for p in _P]
    + [p + ".fromJsonFragment" for p in _P]
    + [p + ".ed" for p in _P]
    + ["defs:Factory.fromJson", "defs:Factory.fromJsonString", "defs:Factory.fromJsonFile", "defs:Container.toJsonFile", "defs:Container.toJsonString", "defs:Container.toImmutable"]
)

OPTS = {"transforms": True}


def plan(tier):
    return 6000 if tier == "quick" else 100000


def budget(tier):
    return 75 if tier == "quick" else 600


def setup(tier):
    C.setup_probes()
    env.ensure_dirs()


def _txt(doc):
    return json.dumps(doc, sort_keys=True)


def _names(doc, path="$", out=None):
    if out is None:
        out = {}
    if isinstance(doc, dict):
        for k, v in doc.items():
            if k == "name" or k.endswith(":name"):
                out[path + "." + k] = v
            _names(v, path + "." + k, out)
    elif isinstance(doc, list):
        for i, v in enumerate(doc):
            _names(v, "%s[%d]" % (path, i), out)
    return out


def _file_route(h, path, Factory, counters, bad):
    """Write, then load twice (also under another spelling of the path): two loads are two independent containers."""
    h.toJsonFile(path)
    r1 = Factory.fromJsonFile(path)
    r2 = Factory.fromJsonFile(os.path.join(os.path.dirname(path), ".", os.path.basename(path)))
    counters["file_loaded_twice"] = 1
    if r1 is r2:
        bad("two fromJsonFile calls on the same file returned the same object")
    else:
        t2 = json.dumps(r2.toJson(), sort_keys=True)
        try:
            r1 += Factory.fromJsonFile(path)
        except Exception:  # noqa: BLE001
            pass
        else:
            if json.dumps(r2.toJson(), sort_keys=True) != t2:
                bad("merging into one load of a file changed another load of the same file (shared state)")
    return Factory.fromJsonFile(path)


def _odd_string_case(i, rng, tier):
    """Category / label / string-bag keys that only escape sequences can carry: an unpaired surrogate (what os.fsdecode
    returns for an undecodable file name), NUL, quotes and backslashes, a line separator - through dict, string and file."""
    hg = env.hg()
    from histogrammar.defs import Factory

    keys = ["caf\udce9.txt", "\ud800", "a\x00b", 'q"uo\\te', "line\u2028sep", "\U0001f600", "tab\there", ""]
    k1, k2 = keys[(i // 50) % len(keys)], rng.choice(keys)
    kind = ("Categorize", "Label", "UntypedLabel", "BagS", "CategorizeOfBag")[(i // 50) % 5]
    if kind == "Categorize":
        h = hg.Categorize(lambda d: d)
    elif kind == "Label":
        h = hg.Label(**{k1: hg.Count(), k2 + "_": hg.Count()})
    elif kind == "UntypedLabel":
        h = hg.UntypedLabel(**{k1: hg.Count(), k2 + "_": hg.Sum(lambda d: 1.0)})
    elif kind == "BagS":
        h = hg.Bag(lambda d: d, "S")
    else:
        h = hg.Categorize(lambda d: d, hg.Bag(lambda d: d, "S"))
    failures = []
    counters = {"odd_string_cases": 1}
    wit = {"kind": kind, "keys": [ascii(k1), ascii(k2)]}
    for d in (k1, k2, k1):
        h.fill(d)
    path = os.path.join(env.TMP, "c04-odd-%d.json" % os.getpid())
    try:
        doc = json.loads(json.dumps(h.toJson(), allow_nan=False))
    except Exception as e:  # noqa: BLE001
        return {"digest": C.digest("odd", kind, ascii(k1), ascii(k2)), "nontrivial": False, "failures": [C.fail(None, "toJson / json.dumps of a %s with the keys %s raised %s: %s" % (kind, wit["keys"], type(e).__name__, str(e)[:120]), **wit)], "counters": counters, "sets": {}}
    for route, load in (("dict", lambda: Factory.fromJson(json.loads(json.dumps(doc)))), ("string", lambda: Factory.fromJsonString(h.toJsonString())), ("file", lambda: (h.toJsonFile(path), Factory.fromJsonFile(path))[1])):
        try:
            r = load()
            rd = json.loads(json.dumps(r.toJson(), allow_nan=False))
            counters["odd_string_routes"] = counters.get("odd_string_routes", 0) + 1
            if rd != doc:
                failures.append(C.fail(None, "reload via %s of a %s with the keys %s re-serialises differently: %s" % (route, kind, wit["keys"], ascii(C.fmt_diff(O.diff(doc, rd, 0.0, exact=True)))[:200]), **wit))
        except Exception as e:  # noqa: BLE001
            failures.append(C.fail(None, "round trip via %s of a %s with the keys %s raised %s: %s" % (route, kind, wit["keys"], type(e).__name__, ascii(str(e))[:120]), **wit))
    return {"digest": C.digest("odd", kind, ascii(k1), ascii(k2)), "nontrivial": True, "failures": failures[:3], "counters": counters, "sets": {}, "sample": {"kind": "odd string keys", "aggregator": kind, "keys": wit["keys"]}}


def run_case(i, rng, tier):
    if i % 50 == 17:
        return _odd_string_case(i, rng, tier)
    state = rng.getstate()
    res = _run(i, rng, tier, False)
    if res["failures"] and res.pop("bool_categories", False):
        # known-finding candidate: a live Categorize keys boolean categories by True/False, its reload by "True"/"False",
        # so merging one with the other keeps both keys and the document collapses them.  Attribute the failures to it
        # only if the very same case with the boolean categories given as their strings passes (neutraliser).
        rng.setstate(state)
        twin = _run(i, rng, tier, True)
        if not twin["failures"]:
            for f in res["failures"]:
                f["key"] = "Categorize.bool-keys-vs-reloaded-string-keys"
    res.pop("bool_categories", None)
    return res


def _run(i, rng, tier, neutralise):
    hg = env.hg()
    from histogrammar.defs import Factory

    nt_table = C.table_size("c04", OPTS)
    if i < 2 * nt_table:
        label, sp = C.table("c04", OPTS)[i // 2]
        empty = i % 2 == 0
    else:
        label, sp = C.pick_spec(10**9, rng, tier, OPTS, "c04")
        empty = rng.random() < 0.15
    n = 0 if empty else rng.randint(1, 10)
    stream = S.gen_stream(rng, sp, n, {"cat_bool": True})
    has_bool = "Categorize" in S.kinds_in(sp) and any(isinstance(r["c"], bool) for r, _ in stream)
    if neutralise:
        stream = [(dict(r, c=str(r["c"]) if isinstance(r["c"], bool) else r["c"]), w) for r, w in stream]
    if rng.random() < 0.15:
        # rows taken from numpy records carry numpy scalars (int64, float64; float32 would legitimately lower the precision of running means): accepted by fill, so the
        # states they lead to must serialise too
        import numpy as np

        def npv(v):
            if isinstance(v, float) and v == v and abs(v) < 1e9 and v == int(v):
                return np.int64(int(v))
            return np.float64(v) if isinstance(v, float) else v

        stream = [({f: (npv(v) if f in S.NUMF else v) for f, v in r.items()}, w) for r, w in stream]
        numpy_rows = True
    else:
        numpy_rows = False
    kind = "fill" if empty else rng.choice(["fill", "fill", "add", "scale", "copy", "merge2"])
    failures = []
    counters = {"state:" + kind: 1, "empty_state" if empty else "filled_state": 1, "numpy_scalar_rows": int(numpy_rows), "boolean_categories": int(has_bool)}
    sets = {"kinds": S.kinds_in(sp), "strata_" + ("empty" if empty else "filled"): {label}}
    wit = {"tree": S.describe(sp), "spec": sp, "stream": C.stream_json(stream), "state": kind}

    h = C.fill_all(S.build(sp), stream)
    items = list(stream)  # ghost multiset of the state (None: not modelled)
    if kind == "add":
        h = h + C.fill_all(S.build(sp), stream[: len(stream) // 2])
        items = items + stream[: len(stream) // 2]
    elif kind == "scale" and not S.has_transform(sp):
        fsc = rng.choice([0.5, 2.0, 3, float("inf")])  # inf: entries inf, empty nodes 0 * inf = NaN (reachable by *)
        h = h * fsc
        items = [(r, w * fsc) for r, w in items if R.gate(w)] if fsc != float("inf") else None
    elif kind == "copy":
        h = h.copy()
    elif kind == "merge2":
        gs = S.gen_stream(rng, sp, rng.randint(0, 6))
        if neutralise:
            gs = [(dict(r, c=str(r["c"]) if isinstance(r["c"], bool) else r["c"]), w) for r, w in gs]
        g = C.fill_all(S.build(sp), gs)
        h = g + h
        items = gs + items
    if numpy_rows or S.has_transform(sp) and kind == "scale":
        items = None

    def bad(msg, **kw):
        failures.append(C.fail(None, msg, **dict(wit, **kw)))

    # 1. strict document
    try:
        doc = h.toJson()
        dtext = json.dumps(doc, allow_nan=False)
    except Exception as e:  # noqa: BLE001
        bad("toJson / json.dumps(allow_nan=False) failed: %s: %s" % (type(e).__name__, str(e)[:200]))
        return {"failures": failures, "counters": counters, "sets": sets, "digest": C.digest(sp, stream, kind), "nontrivial": False, "bool_categories": has_bool}
    doc = json.loads(dtext)
    canon = _txt(doc)

    # 1b. the document says what the specification says about this state - in particular every quantity name, which a
    # reload cannot restore if the document has already lost it
    if items is not None:
        ok, dm, _, inc = R.match(sp, items, O.observe(h), O.scale_of(items) if items else 1.0)
        counters["documents_compared_with_model"] = 1
        if not ok and not inc:
            bad("the document differs from the specified content / names of this state: %s" % C.fmt_diff(dm))

    # 2. three reload routes
    reloads = {}
    # one file per process, rewritten by every case: what a loader remembers about a path must not outlive the file's content
    path = os.path.join(env.TMP, "c04-%d.json" % os.getpid())
    routes = {
        "dict": lambda: Factory.fromJson(json.loads(dtext)),
        "string": lambda: Factory.fromJsonString(h.toJsonString()),
        "file": lambda: _file_route(h, path, Factory, counters, bad),
    }
    for name, fn in routes.items():
        try:
            r = fn()
        except Exception as e:  # noqa: BLE001
            bad("reload via %s raised %s: %s" % (name, type(e).__name__, str(e)[:200]), route=name)
            continue
        finally:
            if name == "file" and os.path.exists(path):
                os.remove(path)
        counters["reloads:" + name] = 1
        try:
            rtxt = _txt(json.loads(json.dumps(r.toJson(), allow_nan=False)))
        except Exception as e:  # noqa: BLE001
            bad("re-serialising the %s reload raised %s: %s" % (name, type(e).__name__, str(e)[:200]), route=name)
            continue
        d = O.diff(json.loads(canon), json.loads(rtxt), 0.0, exact=True)
        if d:
            bad("reload via %s re-serialises differently: %s" % (name, C.fmt_diff(d)), route=name)
            continue
        reloads[name] = r
    if len(reloads) < 3:
        return {"failures": failures, "counters": counters, "sets": sets, "digest": C.digest(sp, stream, kind), "nontrivial": False, "bool_categories": has_bool}
    r = reloads["dict"]

    # names survive at every level (follows from text equality; counted as evidence)
    counters["names_preserved"] = len(_names(doc))

    # 3. equality with the immutable form
    try:
        imm = h.toImmutable()
        eq = r == imm
        eq2 = imm == r
    except Exception as e:  # noqa: BLE001
        bad("reload == original.toImmutable() raised %s: %s" % (type(e).__name__, str(e)[:200]))
    else:
        counters["equality_checked"] = 1
        if not (eq and eq2):
            bad("reload does not compare equal to the original's immutable form (r==imm: %s, imm==r: %s)" % (eq, eq2))

    # 4. interchangeability under the algebra
    f = rng.choice([0.5, 2.0, 3])
    ops = [
        ("x+x", lambda x: x + x, lambda: h + h),
        ("x+h", lambda x: x + h, lambda: h + h),
        ("h+x", lambda x: h + x, lambda: h + h),
        ("x.zero()", lambda x: x.zero(), lambda: h.zero()),
        ("x.copy()", lambda x: x.copy(), lambda: h.copy()),
        ("fromJson(x.toJson())", lambda x: Factory.fromJson(x.toJson()), lambda: h),
        ("x+x.zero()", lambda x: x + x.zero(), lambda: h),
        ("x.zero()+x", lambda x: x.zero() + x, lambda: h),
    ]
    if not S.has_transform(sp):
        ops.append(("x*f", lambda x: x * f, lambda: h * f))
        ops.append(("x*0", lambda x: x * 0.0, lambda: h.zero()))
    scale = O.scale_of(stream)
    for name, on_r, on_h in ops:
        try:
            want = O.observe_strict(on_h())
        except Exception as e:  # noqa: BLE001
            # the original itself cannot do this: not a round-trip question (C08 etc. own it)
            counters["op_unavailable_on_original:" + name] = 1
            continue
        try:
            got = O.observe_strict(on_r(r))
        except Exception as e:  # noqa: BLE001
            bad("%s raises %s on the reload (%s) but works on the original" % (name, type(e).__name__, str(e)[:160]), op=name)
            continue
        counters["algebra_comparisons"] = counters.get("algebra_comparisons", 0) + 1
        d = O.diff(want, got, scale)
        if d:
            bad("%s on the reload differs from the original: %s" % (name, C.fmt_diff(d)), op=name)
            continue
        # the result must itself round-trip
        try:
            res = on_r(r)
            rr = Factory.fromJson(json.loads(json.dumps(res.toJson(), allow_nan=False)))
            if O.diff(json.loads(json.dumps(rr.toJson())), json.loads(json.dumps(res.toJson())), 0.0, exact=True):
                bad("result of %s on the reload does not round-trip through JSON" % name, op=name)
        except Exception as e:  # noqa: BLE001
            bad("result of %s on the reload cannot be serialised/reloaded: %s: %s" % (name, type(e).__name__, str(e)[:160]), op=name)

    return {
        "digest": C.digest(sp, stream, kind),
        "nontrivial": True,
        "failures": failures,
        "counters": counters,
        "sets": sets,
        "sample": C.case_sample(label, sp, stream, state=kind, document=doc if len(dtext) < 600 else dtext[:600] + "..."),
        "bool_categories": has_bool,
    }


def conclusive(agg):
    out = []
    kinds = agg.sets.get("kinds", set())
    miss = [k for k in S.ALL_KINDS if k not in kinds]
    if miss:
        out.append("primitives never generated: %s" % ", ".join(miss))
    for c in ("empty_state", "filled_state", "state:add", "state:scale", "state:copy", "state:merge2"):
        if not agg.counters.get(c):
            out.append("never exercised: %s" % c)
    return out
