"""Environment: locate the repository under test, import it, fixed paths, seeds.

The repository is imported from HGMON_REPO (default /repo).  If `histogrammar` resolves to any other
place the run is inconclusive (exit 2): a check must never silently test a different tree.
"""

import os
import sys

VERIF = os.path.dirname(os.path.dirname(os.path.abspath(__file__)))
REPO = os.path.abspath(os.environ.get("HGMON_REPO", "/repo"))
OUT = os.environ.get("HGMON_OUT") or os.path.join(VERIF, "out")
# HGMON_EVIDENCE_DIR redirects evidence when the checks are pointed at a seeded (broken) tree
EVIDENCE = os.environ.get("HGMON_EVIDENCE_DIR") or os.path.join(VERIF, "evidence")
REPLAY_DIR = os.path.join(OUT, "replay")
TMP = os.path.join(OUT, "tmp")
KNOWN_FINDINGS = os.path.join(VERIF, "known_findings.json")


def seed():
    try:
        return int(os.environ.get("VERIF_SEED", "1"))
    except ValueError:
        return 1


class Inconclusive(Exception):
    pass


_hg = None


def hg():
    """Import histogrammar from the tree under test (once)."""
    global _hg
    if _hg is not None:
        return _hg
    if REPO in sys.path:
        sys.path.remove(REPO)
    sys.path.insert(0, REPO)
    import warnings

    warnings.simplefilter("ignore")
    import histogrammar

    here = os.path.dirname(os.path.abspath(histogrammar.__file__))
    if os.path.dirname(here) != REPO:
        raise Inconclusive(f"histogrammar imported from {here}, expected under {REPO}")
    import histogrammar.util as util

    if util.relativeTolerance != 0.0 or util.absoluteTolerance != 0.0:
        raise Inconclusive("tolerances not zero at import")
    _hg = histogrammar
    return _hg


def ensure_dirs():
    for d in (OUT, EVIDENCE, REPLAY_DIR, TMP):
        os.makedirs(d, exist_ok=True)
