"""Observation of aggregator state and comparison of observations.

The only observation of state is the text json.dumps(h.toJson()) parsed back (so numpy.str_ vs str,
tuple vs list etc. cannot fake a difference), with -0.0 canonicalised to 0.0.
"""

import json
import math

ACCUMULATED = ("sum", "mean", "variance")
ANY = "<any>"  # model marker: field not determined by the specification for this input


def canon(v):
    if isinstance(v, float):
        if v == 0.0:
            return 0.0
        return v
    if isinstance(v, dict):
        return {k: canon(x) for k, x in v.items()}
    if isinstance(v, list):
        return [canon(x) for x in v]
    return v


def observe(h):
    """Canonical observation of an aggregator (raises if toJson / json.dumps raise)."""
    return canon(json.loads(json.dumps(h.toJson())))


def observe_strict(h):
    """As observe but refusing non-finite literals (json.dumps(allow_nan=False))."""
    return canon(json.loads(json.dumps(h.toJson(), allow_nan=False)))


def text(h):
    return json.dumps(h.toJson(), sort_keys=True)


def _num(v):
    if isinstance(v, bool):
        return None
    if isinstance(v, (int, float)):
        return float(v)
    if v == "nan":
        return float("nan")
    if v == "inf":
        return float("inf")
    if v == "-inf":
        return float("-inf")
    return None


def num_equal_exact(a, b):
    if (isinstance(a, str) and a == ANY) or (isinstance(b, str) and b == ANY):
        return True
    fa, fb = _num(a), _num(b)
    if fa is None or fb is None:
        return a == b
    if math.isnan(fa) or math.isnan(fb):
        return math.isnan(fa) and math.isnan(fb)
    return fa == fb


def num_close(a, b, scale, rel=1e-9):
    if (isinstance(a, str) and a == ANY) or (isinstance(b, str) and b == ANY):
        return True
    fa, fb = _num(a), _num(b)
    if fa is None or fb is None:
        return a == b
    if math.isinf(scale) or math.isnan(scale):
        # values so large that squares overflow: accumulated fields are not determined
        return True
    if math.isnan(fa) or math.isnan(fb):
        return math.isnan(fa) and math.isnan(fb)
    if math.isinf(fa) or math.isinf(fb):
        return fa == fb
    return abs(fa - fb) <= rel * max(abs(fa), abs(fb)) + rel * scale


def diff(a, b, scale=1.0, path="$", out=None, limit=8, drop_names=False, exact=False):
    """Differences between two observations.  Exact fields compared exactly (NaN == NaN),
    accumulated fields (sum/mean/variance) within rel*max + rel*scale.  ANY on either side matches."""
    if out is None:
        out = []
    if len(out) >= limit:
        return out
    if a is ANY or b is ANY or (isinstance(a, str) and a == ANY) or (isinstance(b, str) and b == ANY):
        return out
    if isinstance(a, dict) and isinstance(b, dict):
        ka, kb = set(a), set(b)
        if drop_names:
            ka = {k for k in ka if k != "name" and not k.endswith(":name")}
            kb = {k for k in kb if k != "name" and not k.endswith(":name")}
        for k in sorted(ka - kb):
            out.append((path + "." + k, a[k], "<missing>"))
        for k in sorted(kb - ka):
            out.append((path + "." + k, "<missing>", b[k]))
        for k in sorted(ka & kb):
            if not exact and k in ACCUMULATED and not isinstance(a[k], (dict, list)) and not isinstance(b[k], (dict, list)):
                if not num_close(a[k], b[k], scale):
                    out.append((path + "." + k, a[k], b[k]))
            else:
                diff(a[k], b[k], scale, path + "." + k, out, limit, drop_names, exact)
        return out
    if isinstance(a, list) and isinstance(b, list):
        if len(a) != len(b):
            out.append((path + ".len", len(a), len(b)))
            return out
        for i, (x, y) in enumerate(zip(a, b)):
            diff(x, y, scale, "%s[%d]" % (path, i), out, limit, drop_names, exact)
        return out
    if isinstance(a, (dict, list)) or isinstance(b, (dict, list)):
        out.append((path, _short(a), _short(b)))
        return out
    if not num_equal_exact(a, b):
        out.append((path, a, b))
    return out


def _short(v):
    s = json.dumps(v, default=repr)
    return s if len(s) < 200 else s[:200] + "..."


def same(a, b, scale=1.0, drop_names=False):
    return not diff(a, b, scale, drop_names=drop_names)


def drop_zero_sparse(doc):
    """C03 normalisation: remove sparse bins / categories / bag values that hold zero weight."""
    if isinstance(doc, list):
        return [drop_zero_sparse(x) for x in doc]
    if not isinstance(doc, dict):
        return doc
    out = {}
    for k, v in doc.items():
        if k == "bins" and isinstance(v, dict) and "bins:type" in doc:
            # (the sibling "bins:type" tells a sparse container's map from a Label member that is called "bins")
            kept = {}
            for key, frag in v.items():
                e = frag if not isinstance(frag, dict) else frag.get("entries")
                if _num(e) == 0.0:
                    continue
                kept[key] = drop_zero_sparse(frag)
            out[k] = kept
        else:
            out[k] = drop_zero_sparse(v)
    return out


def scale_of(stream):
    """Tolerance scale S = max(1, W) * max(1, M^2) of a weighted stream of records."""
    W = 0.0
    M = 0.0
    for rec, w in stream:
        if isinstance(w, (int, float)) and not isinstance(w, bool) and w == w and w > 0:
            W += w
        for f in ("x", "y", "z"):
            v = rec.get(f)
            if isinstance(v, (int, float)) and not isinstance(v, bool) and v == v and not math.isinf(v):
                M = max(M, abs(v))
    try:
        return max(1.0, W) * max(1.0, M * M)
    except OverflowError:
        return float("inf")


def digest(obj):
    import hashlib

    return hashlib.sha1(json.dumps(obj, sort_keys=True, default=repr).encode()).hexdigest()[:16]
