"""Reference model: an independent, side-effect-free evaluator of the Histogrammar specification
(as restated by property C02) on a weighted multiset of records.

ref_doc(spec, stream) -> the document toJson() should produce after filling `stream` row by row
into a fresh tree built from `spec`.  Accumulated fields (sum, mean, variance) are exact rationals
converted to float; observe.diff compares them with a scale-aware tolerance.

Ambiguity: for equal-width binning the exact rational position t of a datum is computed; when the
floating-point evaluation of the position could legitimately fall on either side of an integer, every
bin within the rounding band is acceptable.  The model then exposes the *choice* as a function of
(node configuration, value); match() searches the (tiny) space of choices for one that explains the
observation, so the model never demands more than the arithmetic can give.
"""

import itertools
import math
from fractions import Fraction

from . import env, spec as S
from .observe import ANY, diff

HUGE = 1e150


def gate(w):
    return isinstance(w, (int, float)) and w > 0.0


def fj(x):
    """floatToJson"""
    if isinstance(x, str):
        return x
    if math.isnan(x):
        return "nan"
    if math.isinf(x):
        return "inf" if x > 0 else "-inf"
    return x


def _fsum(terms):
    """Float-semantics sum of numbers that may be non-finite; finite part summed exactly."""
    has_nan = any(isinstance(t, float) and math.isnan(t) for t in terms)
    pinf = any(isinstance(t, float) and t == math.inf for t in terms)
    ninf = any(isinstance(t, float) and t == -math.inf for t in terms)
    if has_nan or (pinf and ninf):
        return float("nan")
    if pinf:
        return math.inf
    if ninf:
        return -math.inf
    tot = sum((Fraction(t) for t in terms), Fraction(0))
    return _tofloat(tot)


def _tofloat(fr):
    try:
        return float(fr)
    except OverflowError:
        return math.inf if fr > 0 else -math.inf


class Ctx:
    def __init__(self, force=None, assign=None, variants=()):
        self.force = force
        self.assign = assign or {}
        self.amb = {}
        # variants: named, documented deviations of the implementation (known findings); used only to
        # *classify* an already detected difference, never to accept one silently.
        self.variants = set(variants)
        self.variant_hits = set()

    def choose(self, key, cands):
        cands = tuple(sorted(set(cands)))
        if len(cands) == 1:
            return cands[0]
        self.amb[key] = cands
        i = self.assign.get(key, None)
        if i is None:
            # default: the middle candidate closest to the exact floor is first tried
            return cands[len(cands) // 2] if len(cands) > 2 else cands[-1]
        return cands[i]


def _band_cands(t, exact_ops):
    """Acceptable integer floors of a float evaluation of the exact rational t.

    exact_ops: every floating-point operation before the final division is exact, so the
    implementation's value is the correctly rounded t; then only floor(t) (the real-number answer)
    and floor(fl(t)) (the correctly rounded one) are acceptable.  Otherwise every floor within a
    band of a few ulps of t is."""
    if exact_ops:
        return sorted({math.floor(t), math.floor(Fraction(_tofloat(t))) if abs(t) < 10**300 else math.floor(t)})
    band = max(abs(t), 1) * Fraction(1, 2**50)
    lo = math.floor(t - band)
    hi = math.floor(t + band)
    return list(range(lo, hi + 1))


def bin_index_cands(num, low, high, q):
    """Candidates for Bin's index of a finite q with low <= q < high."""
    fq, fl, fh = Fraction(q), Fraction(low), Fraction(high)
    t = Fraction(num) * (fq - fl) / (fh - fl)
    try:
        exact = (
            Fraction(q - low) == fq - fl
            and Fraction(high - low) == fh - fl
            and Fraction(num * (q - low)) == num * (fq - fl)
        )
    except (OverflowError, ValueError):
        exact = False
    c = _band_cands(t, exact)
    return sorted({min(max(i, 0), num - 1) for i in c})


def sparse_index_cands(bw, origin, q):
    if q == math.inf:
        return [S.LONG_PLUSINF]
    if q == -math.inf:
        return [S.LONG_MINUSINF]
    fq, fo, fb = Fraction(q), Fraction(origin), Fraction(bw)
    t = (fq - fo) / fb
    if t <= S.LONG_MINUSINF + 4096:
        return [S.LONG_MINUSINF]
    if t >= S.LONG_PLUSINF - 4096:
        return [S.LONG_PLUSINF]
    exact = Fraction(q - origin) == fq - fo
    return _band_cands(t, exact)


def central_index_cands(centers, q):
    """centers sorted floats; nearest centre, ties upward; float and exact midpoints both accepted."""
    n = len(centers)
    if q == math.inf:
        return [n - 1]
    if q == -math.inf:
        return [0]

    def idx(mids):
        for i, m in enumerate(mids):
            if Fraction(q) < m:
                return i
        return n - 1

    fm = [Fraction((a + b) / 2.0) for a, b in zip(centers, centers[1:])]
    em = [(Fraction(a) + Fraction(b)) / 2 for a, b in zip(centers, centers[1:])]
    return sorted({idx(fm), idx(em)})


def _name(node, ctx):
    return S.qname(node, ctx.force) if "f" in node else None


def _maybe(d, **kw):
    for k, v in kw.items():
        if v is not None:
            d[k.replace("__", ":")] = v
    return d


def _child_name(child, ctx):
    """The "values:name"/"bins:name"/"sub:name" a parent reports for a child spec."""
    if "f" in child:
        return S.qname(child, ctx.force)
    return None


def _q(node, rec):
    k = node["k"]
    if k == "Bag" and node["range"] == "N2":
        return (rec[node["f"]], rec[node["f2"]])
    return rec[node["f"]]


def _isnan(v):
    return isinstance(v, float) and math.isnan(v)


def frag(node, items, suppress, ctx):
    """Expected toJsonFragment of `node` after receiving items [(record, weight>0)]."""
    k = node["k"]
    name = None if suppress else _name(node, ctx)
    W = [w for _, w in items]
    entries = _tofloat(sum((Fraction(w) for w in W), Fraction(0)))

    if k == "Count":
        t = node.get("t")
        return fj(_tofloat(sum((Fraction(S.transform_value(t, w)) for w in W), Fraction(0))))

    if k == "Sum":
        terms = [_mulw(_q(node, r), w) for r, w in items]
        if "sum_drop_nan" in ctx.variants and any(_isnan(float(_q(node, r))) for r, _ in items):
            ctx.variant_hits.add("sum_drop_nan")
            terms = [_mulw(_q(node, r), w) for r, w in items if not _isnan(float(_q(node, r)))]
        s = _fsum(terms) if terms else 0.0
        return _maybe({"entries": fj(entries), "sum": fj(s)}, name=name)

    if k in ("Average", "Deviate"):
        qs = [float(_q(node, r)) for r, _ in items]
        mean, var = _moments(qs, W)
        d = {"entries": fj(entries), "mean": fj(mean) if mean is not ANY else ANY}
        if k == "Deviate":
            d["variance"] = fj(var) if var is not ANY else ANY
        return _maybe(d, name=name)

    if k in ("Minimize", "Maximize"):
        qs = [float(_q(node, r)) for r, _ in items if not _isnan(float(_q(node, r)))]
        if not qs:
            v = float("nan")
        else:
            v = min(qs) if k == "Minimize" else max(qs)
        return _maybe({"entries": fj(entries), "min" if k == "Minimize" else "max": fj(v)}, name=name)

    if k == "Bag":
        vals = {}
        for r, w in items:
            q = _q(node, r)
            if node["range"] == "N":
                key = "nan" if _isnan(float(q)) else float(q)
            elif node["range"] == "N2":
                key = tuple("nan" if _isnan(float(x)) else float(x) for x in q)
            else:
                key = q
            vals[key] = vals.get(key, Fraction(0)) + Fraction(w)
        if node["range"] == "N":
            order = sorted(x for x in vals if x != "nan") + (["nan"] if "nan" in vals else [])
        elif node["range"] == "N2":
            order = sorted(vals, key=lambda tup: tuple((1, 0.0) if x == "nan" else (0, x) for x in tup))
        else:
            order = sorted(vals)
        out = []
        for key in order:
            v = [fj(x) for x in key] if isinstance(key, tuple) else fj(key)
            out.append({"w": fj(_tofloat(vals[key])), "v": v})
        return _maybe({"entries": fj(entries), "values": out, "range": node["range"]}, name=name)

    if k == "Bin":
        num, low, high = node["num"], float(node["low"]), float(node["high"])
        parts = {"under": [], "over": [], "nan": []}
        bins = [[] for _ in range(num)]
        for r, w in items:
            q = float(_q(node, r))
            if _isnan(q):
                parts["nan"].append((r, w))
            elif q < low:
                parts["under"].append((r, w))
            elif q >= high:
                parts["over"].append((r, w))
            else:
                c = bin_index_cands(num, low, high, q)
                i = ctx.choose(("Bin", num, low, high, q), c)
                bins[i].append((r, w))
        d = {
            "low": fj(low),
            "high": fj(high),
            "entries": fj(entries),
            "values:type": node["value"]["k"],
            "values": [frag(node["value"], b, True, ctx) for b in bins],
            "underflow:type": node["under"]["k"],
            "underflow": frag(node["under"], parts["under"], False, ctx),
            "overflow:type": node["over"]["k"],
            "overflow": frag(node["over"], parts["over"], False, ctx),
            "nanflow:type": node["nan"]["k"],
            "nanflow": frag(node["nan"], parts["nan"], False, ctx),
        }
        return _maybe(d, name=name, values__name=_child_name(node["value"], ctx))

    if k == "SparselyBin":
        bw, origin = float(node["bw"]), float(node["origin"])
        nan, bins = [], {}
        for r, w in items:
            q = float(_q(node, r))
            if _isnan(q):
                nan.append((r, w))
            else:
                c = sparse_index_cands(bw, origin, q)
                if "sparse_drop_huge" in ctx.variants and not math.isinf(q) and abs(c[0]) == S.LONG_PLUSINF:
                    ctx.variant_hits.add("sparse_drop_huge")
                    continue
                i = ctx.choose(("SparselyBin", bw, origin, q), c)
                bins.setdefault(i, []).append((r, w))
        d = {
            "binWidth": fj(bw),
            "entries": fj(entries),
            "bins:type": node["value"]["k"],
            "bins": {str(i): frag(node["value"], b, True, ctx) for i, b in bins.items()},
            "nanflow:type": node["nan"]["k"],
            "nanflow": frag(node["nan"], nan, False, ctx),
            "origin": origin,
        }
        return _maybe(d, name=name, bins__name=_child_name(node["value"], ctx))

    if k == "CentrallyBin":
        centers = sorted(float(c) for c in node["centers"])
        nan, bins = [], [[] for _ in centers]
        for r, w in items:
            q = float(_q(node, r))
            if _isnan(q):
                nan.append((r, w))
            else:
                c = central_index_cands(centers, q)
                i = ctx.choose(("CentrallyBin", tuple(centers), q), c)
                bins[i].append((r, w))
        d = {
            "entries": fj(entries),
            "bins:type": node["value"]["k"],
            "bins": [{"center": fj(c), "data": frag(node["value"], b, True, ctx)} for c, b in zip(centers, bins)],
            "nanflow:type": node["nan"]["k"],
            "nanflow": frag(node["nan"], nan, False, ctx),
        }
        return _maybe(d, name=name, bins__name=_child_name(node["value"], ctx))

    if k in ("IrregularlyBin", "Stack"):
        th = [float("-inf")] + [float(e) for e in node["edges"]]
        nan, bins = [], [[] for _ in th]
        for r, w in items:
            q = float(_q(node, r))
            if _isnan(q):
                nan.append((r, w))
            elif k == "Stack":
                for i, t in enumerate(th):
                    if q >= t:
                        bins[i].append((r, w))
            else:
                for i, t in enumerate(th):
                    hi = th[i + 1] if i + 1 < len(th) else None
                    if q >= t and (hi is None or not q >= hi):
                        bins[i].append((r, w))
                        break
        d = {
            "entries": fj(entries),
            "bins:type": node["value"]["k"],
            "bins": [{"atleast": fj(t), "data": frag(node["value"], b, True, ctx)} for t, b in zip(th, bins)],
            "nanflow:type": node["nan"]["k"],
            "nanflow": frag(node["nan"], nan, False, ctx),
        }
        return _maybe(d, name=name, bins__name=_child_name(node["value"], ctx))

    if k == "Categorize":
        bins = {}
        for r, w in items:
            q = _q(node, r)
            if q is None or _isnan(q):
                q = "NaN"
            bins.setdefault(str(q), []).append((r, w))
        d = {
            "entries": fj(entries),
            "bins:type": node["value"]["k"],
            "bins": {key: frag(node["value"], b, True, ctx) for key, b in bins.items()},
        }
        return _maybe(d, name=name, bins__name=_child_name(node["value"], ctx))

    if k == "Fraction":
        num = []
        for r, w in items:
            pw = _mulw(_q(node, r), w)
            if gate(pw):
                num.append((r, pw))
        d = {
            "entries": fj(entries),
            "sub:type": node["value"]["k"],
            "numerator": frag(node["value"], num, True, ctx),
            "denominator": frag(node["value"], items, True, ctx),
        }
        return _maybe(d, name=name, sub__name=_child_name(node["value"], ctx))

    if k == "Select":
        cut = []
        for r, w in items:
            pw = _mulw(_q(node, r), w)
            if gate(pw):
                cut.append((r, pw))
        d = {"entries": fj(entries), "sub:type": node["cut"]["k"], "data": frag(node["cut"], cut, False, ctx)}
        return _maybe(d, name=name)

    if k == "Label":
        first = next(iter(node["pairs"].values()))
        return {
            "entries": fj(entries),
            "sub:type": first["k"],
            "data": {key: frag(v, items, False, ctx) for key, v in node["pairs"].items()},
        }
    if k == "UntypedLabel":
        return {
            "entries": fj(entries),
            "data": {key: {"type": v["k"], "data": frag(v, items, False, ctx)} for key, v in node["pairs"].items()},
        }
    if k == "Index":
        return {
            "entries": fj(entries),
            "sub:type": node["values"][0]["k"],
            "data": [frag(v, items, False, ctx) for v in node["values"]],
        }
    if k == "Branch":
        return {
            "entries": fj(entries),
            "data": [{"type": v["k"], "data": frag(v, items, False, ctx)} for v in node["values"]],
        }
    raise ValueError(k)


def _mulw(q, w):
    """q * w with float semantics (q may be bool/int/float incl. non-finite)."""
    q = float(q)
    return q * float(w)


def _moments(qs, ws):
    """(mean, variance) per the specification; NaN/inf rules of Average/Deviate."""
    if not qs:
        return float("nan"), float("nan")
    if any(math.isnan(q) for q in qs):
        return float("nan"), float("nan")
    pinf = any(q == math.inf for q in qs)
    ninf = any(q == -math.inf for q in qs)
    if pinf and ninf:
        return float("nan"), float("nan")
    if pinf:
        return math.inf, float("nan")
    if ninf:
        return -math.inf, float("nan")
    W = sum((Fraction(w) for w in ws), Fraction(0))
    m = sum((Fraction(q) * Fraction(w) for q, w in zip(qs, ws)), Fraction(0)) / W
    if any(abs(q) >= HUGE for q in qs):
        return _tofloat(m), ANY
    v = sum((Fraction(w) * (Fraction(q) - m) ** 2 for q, w in zip(qs, ws)), Fraction(0)) / W
    return _tofloat(m), _tofloat(v)


_version = None


def spec_version():
    global _version
    if _version is None:
        env.hg()
        import histogrammar.version

        _version = histogrammar.version.specification
    return _version


def ref_doc(spec, stream, force=None, assign=None, ctx_out=None, variants=()):
    ctx = Ctx(force, assign, variants)
    items = [(r, w) for r, w in stream if gate(w)]
    doc = {"type": spec["k"], "data": frag(spec, items, False, ctx), "version": spec_version()}
    if ctx_out is not None:
        ctx_out.append(ctx)
    return doc


MAX_AMB = 7


def match(spec, stream, observed, scale, force=None, drop_names=False, variants=(), hits_out=None, norm=None):
    """Does `observed` equal the model of (spec, stream) for some acceptable choice in the
    ambiguity bands?  Returns (ok, differences-of-closest-attempt, n_ambiguous, inconclusive).
    variants/norm are only used to classify an already detected difference (known findings)."""
    out = []

    def model(assign):
        d = ref_doc(spec, stream, force, assign, out, variants=variants)
        return norm(d) if norm else d

    doc = model(None)
    if hits_out is not None:
        hits_out.update(out[0].variant_hits)
    d = diff(doc, observed, scale, drop_names=drop_names)
    amb = out[0].amb
    if not d:
        return True, [], len(amb), False
    if not amb:
        return False, d, 0, False
    keys = sorted(amb, key=repr)
    best = d
    if any(len(amb[k]) > 8 for k in keys):
        # a value so far from the origin that rounding in the index arithmetic spans many bins: the
        # specification does not determine its bin to within a search we can afford
        return False, d, len(keys), True
    combos = 1
    for k in keys:
        combos *= len(amb[k])
    if len(keys) <= MAX_AMB and combos <= 512:
        for combo in itertools.product(*[range(len(amb[k])) for k in keys]):
            doc = model(dict(zip(keys, combo)))
            dd = diff(doc, observed, scale, drop_names=drop_names, limit=10**6)
            if not dd:
                return True, [], len(keys), False
            if len(dd) < len(best):
                best = dd
        return False, best, len(keys), False
    # many band values: the choices are independent (each moves one datum between two bins), so
    # coordinate descent on the number of differences finds an explaining assignment if one exists
    assign = {}
    cur = len(diff(doc, observed, scale, drop_names=drop_names, limit=10**6))
    for _ in range(3):
        improved = False
        for k in keys:
            for ci in range(len(amb[k])):
                if assign.get(k) == ci:
                    continue
                trial = dict(assign)
                trial[k] = ci
                dd = diff(model(trial), observed, scale, drop_names=drop_names, limit=10**6)
                if len(dd) < cur:
                    cur, assign, improved, best = len(dd), trial, True, dd
                    if not dd:
                        return True, [], len(keys), False
        if not improved:
            break
    # could not explain the observation; with this many band values the search is not exhaustive
    return False, best, len(keys), True


def routing_classes(spec, stream):
    """Which routing outcomes of binning nodes the stream exercises (for coverage evidence)."""
    seen = set()
    items = [(r, w) for r, w in stream if gate(w)]
    for _, n in S.walk(spec):
        k = n["k"]
        if k == "Bin":
            low, high, num = float(n["low"]), float(n["high"]), n["num"]
            for r, _ in items:
                q = float(r[n["f"]])
                if _isnan(q):
                    seen.add("Bin.nanflow")
                elif q < low:
                    seen.add("Bin.underflow")
                elif q >= high:
                    seen.add("Bin.overflow")
                else:
                    c = bin_index_cands(num, low, high, q)
                    if len(c) > 1:
                        seen.add("Bin.band")
                    t = Fraction(num) * (Fraction(q) - Fraction(low)) / (Fraction(high) - Fraction(low))
                    if t.denominator == 1:
                        seen.add("Bin.exact-edge")
                    if c[0] == 0:
                        seen.add("Bin.first")
                    if c[-1] == num - 1:
                        seen.add("Bin.last")
        elif k == "SparselyBin":
            for r, _ in items:
                q = float(r[n["f"]])
                if _isnan(q):
                    seen.add("SparselyBin.nanflow")
                else:
                    c = sparse_index_cands(float(n["bw"]), float(n["origin"]), q)
                    if len(c) > 1:
                        seen.add("SparselyBin.band")
                    if c[0] < 0:
                        seen.add("SparselyBin.negative")
                    if abs(c[0]) == S.LONG_PLUSINF:
                        seen.add("SparselyBin.saturated")
        elif k == "CentrallyBin":
            for r, _ in items:
                q = float(r[n["f"]])
                if _isnan(q):
                    seen.add("CentrallyBin.nanflow")
                else:
                    cs = sorted(n["centers"])
                    for a, b in zip(cs, cs[1:]):
                        if q == (a + b) / 2.0:
                            seen.add("CentrallyBin.tie")
        elif k in ("IrregularlyBin", "Stack"):
            for r, _ in items:
                q = float(r[n["f"]])
                if _isnan(q):
                    seen.add(k + ".nanflow")
                elif q in n["edges"]:
                    seen.add(k + ".on-threshold")
                elif math.isinf(q):
                    seen.add(k + ".inf")
        elif k == "Categorize":
            for r, _ in items:
                q = r[n["f"]]
                if q is None or _isnan(q):
                    seen.add("Categorize.NaN")
    return seen
