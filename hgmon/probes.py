"""Probes attached to the real code from the harness process (nothing in the repository is edited).

FillTrace: wrappers on the class attribute `fill` of all primitives.  Because instance-level
`self.fill = FillMethod(self, self.fill)` binds whatever the class attribute resolves to at
construction time, the wrappers must be installed before any tree is built (install() is called by
every check's setup).  The wrappers nest, so a node's fill event knows which direct children
received a fill during it and with what weight: the fan-out probe.
"""

from . import env, spec as S

_installed = False
_counts = {"fill_events": 0}


class Call:
    __slots__ = ("obj", "kind", "weight", "children", "raised")

    def __init__(self, obj, weight):
        self.obj = obj
        self.kind = type(obj).__mro__[0].__name__
        self.weight = weight
        self.children = []
        self.raised = None


class FillTrace:
    def __init__(self):
        self.enabled = False
        self.stack = []
        self.roots = []

    def begin(self):
        self.enabled = True
        self.stack = []
        self.roots = []

    def end(self):
        self.enabled = False
        roots, self.roots = self.roots, []
        self.stack = []
        return roots


TRACE = FillTrace()


def primitive_classes():
    hg = env.hg()
    return [getattr(hg, k) for k in S.ALL_KINDS]


def base_kind(obj):
    """Primitive kind of a (possibly specialized) aggregator object."""
    hg = env.hg()
    for k in S.ALL_KINDS:
        if isinstance(obj, getattr(hg, k)):
            return k
    return type(obj).__name__


def install():
    """Wrap <Primitive>.fill for all 19 primitives (idempotent)."""
    global _installed
    if _installed:
        return
    for cls in primitive_classes():
        orig = cls.__dict__.get("fill")
        if orig is None:
            continue

        def make(orig):
            def fill(self, datum, weight=1.0, *a, **kw):
                tr = TRACE
                if not tr.enabled:
                    return orig(self, datum, weight, *a, **kw)
                _counts["fill_events"] += 1
                c = Call(self, weight)
                if tr.stack:
                    tr.stack[-1].children.append(c)
                else:
                    tr.roots.append(c)
                tr.stack.append(c)
                try:
                    return orig(self, datum, weight, *a, **kw)
                except BaseException as e:
                    c.raised = e
                    raise
                finally:
                    tr.stack.pop()

            fill.__wrapped__ = orig
            fill.__doc__ = orig.__doc__
            return fill

        cls.fill = make(orig)
    _installed = True


def traced_fill(h, datum, weight):
    """h.fill(datum, weight) under the fan-out probe; returns (root Call list, exception or None)."""
    TRACE.begin()
    exc = None
    try:
        h.fill(datum, weight)
    except Exception as e:  # noqa: BLE001
        exc = e
    roots = TRACE.end()
    return roots, exc


def _pos(w):
    return isinstance(w, (int, float)) and w > 0.0


def fanout_violations(call, out=None, counters=None):
    """Fan-out oracle on a fill call tree.  For a call with weight > 0 that returned normally:
    binning nodes fill exactly one child with the same weight; Stack fills nanflow or >=1 bins, all
    with the same weight; collections fill every member once with the same weight; Select/Fraction
    pass the weight or a product.  A node object appearing twice among one datum's calls is a
    double fill."""
    if out is None:
        out = []
    seen = {}

    def visit(c):
        k = base_kind(c.obj)
        if id(c.obj) in seen:
            out.append("object %s filled twice for one datum" % k)
        seen[id(c.obj)] = True
        if c.raised is None and _pos(c.weight):
            n = len(c.children)
            if counters is not None:
                counters["fanout_evaluations:" + k] = counters.get("fanout_evaluations:" + k, 0) + 1
            if k in S.BINNERS:
                if n != 1:
                    out.append("%s filled %d children for one datum (expected exactly 1)" % (k, n))
                elif c.children[0].weight != c.weight:
                    out.append("%s passed weight %r to its bin, was given %r" % (k, c.children[0].weight, c.weight))
            elif k == "Stack":
                if n < 1:
                    out.append("Stack filled no child")
                if any(ch.weight != c.weight for ch in c.children):
                    out.append("Stack changed the weight")
            elif k in S.COLLECTIONS:
                want = len(c.obj.children)
                if n != want or any(ch.weight != c.weight for ch in c.children):
                    out.append("%s filled %d of %d members" % (k, n, want))
            elif k == "Select":
                if n > 1:
                    out.append("Select filled %d children" % n)
            elif k == "Fraction":
                if n not in (1, 2) or c.children[0].weight != c.weight:
                    out.append("Fraction filled %d children" % n)
        elif c.raised is None and not _pos(c.weight):
            if c.children:
                out.append("%s with non-positive weight %r filled children" % (k, c.weight))
        for ch in c.children:
            visit(ch)

    visit(call)
    return out
