"""Column batches for the vectorised fill path, in the three data representations
(dict of arrays, numpy.recarray, pandas.DataFrame), with a write-sanitizer: every array handed to
the library is read-only and is compared with a saved copy afterwards.
"""

import numpy as np

from . import spec as S

REPS = ("dict", "recarray", "df")


def columns(records, dtypes=None):
    """dict field -> numpy array from a list of records (categories/strings as str arrays).
    dtypes: optional {field: numpy dtype} for numeric/selection columns whose values are all representable
    in it (integer or boolean columns, as they come out of a database or a comparison)."""
    n = len(records)
    dtypes = dtypes or {}
    cols = {}
    for f in S.NUMF + S.SELF:
        dt = dtypes.get(f, np.float64)
        conv = float if dt is np.float64 else (bool if dt is np.bool_ else int)
        cols[f] = np.array([conv(r[f]) for r in records], dtype=dt).reshape(n)
    for f in ("c", "t"):
        vals = [str(r[f]) for r in records]
        cols[f] = np.array(vals, dtype=str).reshape(n) if n else np.array([], dtype="<U1")
    return cols


def rows(cols, n):
    """Python-native records, one per row of the columns (what the per-row twin is filled with)."""
    out = []
    for j in range(n):
        rec = {}
        for f, a in cols.items():
            v = a[j]
            rec[f] = str(v) if a.dtype.kind in "US" else float(v)
        out.append(rec)
    return out


class Batch:
    def __init__(self, cols, rep):
        self.rep = rep
        self.cols = cols
        self.saved = {f: a.copy() for f, a in cols.items()}
        for a in cols.values():
            a.flags.writeable = False
        if rep == "dict":
            self.data = dict(cols)
        elif rep == "recarray":
            self.data = np.rec.fromarrays([cols[f] for f in cols], names=list(cols))
            self.saved_rec = self.data.copy()
            self.data.flags.writeable = False
        elif rep == "df":
            import pandas as pd

            self.data = pd.DataFrame({f: (pd.Series(a, dtype=object) if a.dtype.kind in "US" else a) for f, a in cols.items()})
            self.saved_df = self.data.copy(deep=True)
        else:
            raise ValueError(rep)

    def modified(self):
        """Names of inputs the library changed (empty list = untouched)."""
        bad = []
        for f, a in self.cols.items():
            b = self.saved[f]
            same = np.array_equal(a, b) if a.dtype.kind in "US" else np.array_equal(a, b, equal_nan=True)
            if not same:
                bad.append(f)
        if self.rep == "recarray":
            for f in self.cols:
                a, b = self.data[f], self.saved_rec[f]
                same = np.array_equal(a, b) if a.dtype.kind in "US" else np.array_equal(a, b, equal_nan=True)
                if not same:
                    bad.append("rec." + f)
        if self.rep == "df":
            if list(self.data.columns) != list(self.saved_df.columns) or not self.data.equals(self.saved_df):
                bad.append("dataframe")
        return bad


def weights_array(ws):
    a = np.array([float(w) for w in ws], dtype=np.float64)
    a.flags.writeable = False
    return a
