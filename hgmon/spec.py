"""Tree specifications: JSON-able terms from which real aggregator trees, reference-model
documents, critical-value alphabets and structural mutants are derived.

A spec is a dict with key "k" (primitive kind).  Quantity-bearing nodes carry "f" (record field read)
and "qf" (quantity flavour).  Records are dicts with fields
    x, y, z : numbers (binning / summed quantities)
    c       : category (str | None | float nan)
    t       : str (Bag range "S")
    p, r    : selection factors (bool | number)
"""

import math

from . import env

NUMF = ("x", "y", "z")
SELF = ("p", "r")
FLAVOURS = ("lambda", "def", "str", "named", "cached", "namedcached", "lamdef", "factory", "kwonly", "namedempty", "namedlib")
LEAF_Q = ("Sum", "Average", "Deviate", "Minimize", "Maximize")
BINNERS = ("Bin", "SparselyBin", "CentrallyBin", "IrregularlyBin", "Categorize")
COLLECTIONS = ("Label", "UntypedLabel", "Index", "Branch")
CONTAINERS = BINNERS + ("Stack", "Fraction", "Select") + COLLECTIONS
ALL_KINDS = ("Count",) + LEAF_Q + ("Bag",) + CONTAINERS

LONG_MINUSINF = -9223372036854775807
LONG_PLUSINF = 9223372036854775807

# ----------------------------------------------------------------------------------------------
# quantity functions


def _expr(node):
    """String expression of the node's quantity over record fields."""
    k = node["k"]
    if k == "Bag" and node["range"] == "N2":
        return "np.stack([%s, %s], axis=-1)" % (node["f"], node["f2"])
    return node["f"]


def _lambda_src(node):
    k = node["k"]
    if k == "Bag" and node["range"] == "N2":
        return "lambda d: __import__('numpy').stack([d['%s'], d['%s']], axis=-1)" % (node["f"], node["f2"])
    return "lambda d: d['%s']" % node["f"]


def qname(node, force=None):
    """Name the library gives to the node's quantity (what appears as "name" in JSON)."""
    fl = force or node.get("qf", "lambda")
    if node.get("qf") == "fault":
        return "q"
    if fl in ("lambda", "cached", "lamdef", "factory", "kwonly"):
        return None
    if fl == "def":
        return "q_" + node["f"]
    if fl == "str":
        return _expr(node)
    if fl == "namedempty":
        return ""
    if fl == "namedlib":
        return "identity"
    return "n_" + node["f"]


class InjectedFault(Exception):
    """Raised by a fault-injecting quantity (C12)."""


# fault plan consulted by quantities of flavour "fault": user functions are the failpoints C12 quantifies over
FAULT = {"fire": False, "mode": "raise", "fired": 0, "exc": None}

# what a failing user function may raise: the library must let every one of them through untouched (a handler that is
# too wide, or meant for something else - `except OverflowError`, `except (TypeError, ValueError)` - would swallow it)
FAULT_EXCEPTIONS = (None, OverflowError, KeyError, ZeroDivisionError, ValueError, TypeError, AttributeError, IndexError, NameError, AssertionError, RuntimeError, FloatingPointError, StopIteration, ArithmeticError, LookupError, UnicodeError, OSError, MemoryError, NotImplementedError, RecursionError)


def _wrong_value(node):
    k = node["k"]
    if k == "Categorize":
        return 3.5  # a non-NaN number is not a category
    if k == "Bag":
        return {"N": "not-a-number", "N2": (1.0,), "S": 3.5}[node["range"]]
    return "not-a-number"


def _wrong_value_np(node):
    """A wrong-typed return value that is a numpy scalar (what a quantity computed with numpy hands back)."""
    import numpy as np

    k = node["k"]
    if k == "Categorize":
        return np.float64(3.5)
    if k == "Bag":
        return {"N": np.str_("not-a-number"), "N2": np.array([1.0]), "S": np.float64(3.5)}[node["range"]]
    return np.str_("not-a-number")


def _wrong_value_like(node, rng_pick):
    """A wrong-typed return value that a lenient conversion (float(), str(), iteration) would swallow: a number spelled as
    a string or bytes, a one-element list, a Decimal - for a numeric quantity; a number-like for a category."""
    import decimal

    k = node["k"]
    if k == "Categorize":
        return [decimal.Decimal("1.5"), [1.0], b"a", 7][rng_pick % 4]
    if k == "Bag":
        r = node["range"]
        if r == "S":
            return [b"a", 1, ["a"], decimal.Decimal("2")][rng_pick % 4]
        if r == "N2":
            return ["35", ("1.0", "2.0"), [1.0, "2"], b"12"][rng_pick % 4]
        return ["3.5", " 7 ", b"300", [2.0]][rng_pick % 4]
    import numpy as np

    # ... and "not-a-number" values of classes that are not numbers: they compare unequal to themselves like a float NaN
    return ["12.5", " -7 ", "nan", b"300", [4.0], "1e3", "inf", decimal.Decimal("NaN"), complex("nan"), np.datetime64("NaT"), np.bool_(True), np.bool_(False)][rng_pick % 12]  # (numpy counts timedelta64 as an integer type: not a wrong type)


def _fault_quantity(node):
    f, f2 = node["f"], node.get("f2")
    wrong = _wrong_value(node)
    wrong_np = _wrong_value_np(node)
    n2 = node["k"] == "Bag" and node["range"] == "N2"

    def q(d):
        if FAULT["fire"]:
            FAULT["fired"] += 1
            if FAULT["mode"] == "raise":
                raise (FAULT.get("exc") or InjectedFault)("injected failure in the quantity of %s" % node["k"])
            if FAULT["mode"] == "wrong-np":
                return wrong_np
            if FAULT["mode"] == "wrong-like":
                return _wrong_value_like(node, FAULT.get("pick", 0))
            return wrong
        return (d[f], d[f2]) if n2 else d[f]

    return q


def make_quantity(node, force=None):
    """Build a fresh, self-contained (picklable) quantity for a node."""
    from histogrammar.util import cached, named

    fl = force or node.get("qf", "lambda")
    if node.get("qf") == "fault":
        return _fault_quantity(node)
    if fl == "str":
        return _expr(node)
    ns = {}
    if fl == "def":
        body = _lambda_src(node).split(":", 1)[1].strip()
        exec("def q_%s(d):\n    return %s\n" % (node["f"], body), ns)
        return ns["q_" + node["f"]]
    if fl == "kwonly" and not (node["k"] == "Bag" and node.get("range") == "N2"):
        # the field passed as a keyword-only default (`lambda d, *, f=f: d[f]`): kept in __kwdefaults__, not __defaults__
        return eval("lambda d, *, f=%r: d[f]" % node["f"], ns)
    if fl in ("lamdef", "factory") and not (node["k"] == "Bag" and node.get("range") == "N2"):
        if fl == "lamdef":
            # a default argument that is NaN (the "missing value" idiom); same function of the record
            return eval("lambda d, missing=float('nan'): missing if d['%s'] is None else d['%s']" % (node["f"], node["f"]), ns)
        # the factory idiom `lambda d, f=f: d[f]`: one code object, parametrised through the default
        return eval("lambda d, f=%r: d[f]" % node["f"], ns)
    f = eval(_lambda_src(node), ns)
    if fl in ("lambda", "lamdef", "factory", "kwonly"):
        return f
    if fl == "named":
        return named("n_" + node["f"], f)
    if fl == "namedempty":
        return named("", f)  # the empty string is a name like any other (falsy, though)
    if fl == "namedlib":
        return named("identity", f)  # a user function that happens to carry the name of one of the library's own
    if fl == "cached":
        return cached(f)
    if fl == "namedcached":
        return cached(named("n_" + node["f"], f))
    raise ValueError(fl)


TRANSFORMS_SRC = {"dbl": "lambda w: 2 * w", "sq": "lambda w: w * w"}


def transform_value(t, w):
    if not t:
        return w
    if t == "dbl":
        return 2 * w
    if t == "sq":
        return w * w
    raise ValueError(t)


# ----------------------------------------------------------------------------------------------
# building real trees


def build(spec, force=None):
    """Build a fresh real aggregator tree; every child is passed explicitly and freshly built."""
    hg = env.hg()
    k = spec["k"]
    if k == "Count":
        if spec.get("t"):
            tf = eval(TRANSFORMS_SRC[spec["t"]], {})
            if spec.get("tn"):
                # the same transform written as a def called like one of the library's own functions
                ns = {}
                exec("def %s(w):\n    return %s\n" % (spec["tn"], TRANSFORMS_SRC[spec["t"]].split(":", 1)[1].strip()), ns)
                tf = ns[spec["tn"]]
            if spec.get("tc"):
                from histogrammar.util import cached

                tf = cached(tf)
            return hg.Count(tf)
        return hg.Count()
    if k in LEAF_Q:
        return getattr(hg, k)(make_quantity(spec, force))
    if k == "Bag":
        return hg.Bag(make_quantity(spec, force), spec["range"])
    if k == "Bin":
        return hg.Bin(
            spec["num"],
            spec["low"],
            spec["high"],
            make_quantity(spec, force),
            build(spec["value"], force),
            build(spec["under"], force),
            build(spec["over"], force),
            build(spec["nan"], force),
        )
    if k == "SparselyBin":
        return hg.SparselyBin(
            spec["bw"], make_quantity(spec, force), build(spec["value"], force), build(spec["nan"], force), spec["origin"]
        )
    if k == "CentrallyBin":
        return hg.CentrallyBin(
            list(spec["centers"]), make_quantity(spec, force), build(spec["value"], force), build(spec["nan"], force)
        )
    if k == "IrregularlyBin":
        return hg.IrregularlyBin(
            list(spec["edges"]), make_quantity(spec, force), build(spec["value"], force), build(spec["nan"], force)
        )
    if k == "Stack":
        return hg.Stack(
            list(spec["edges"]), make_quantity(spec, force), build(spec["value"], force), build(spec["nan"], force)
        )
    if k == "Categorize":
        return hg.Categorize(make_quantity(spec, force), build(spec["value"], force))
    if k == "Fraction":
        return hg.Fraction(make_quantity(spec, force), build(spec["value"], force))
    if k == "Select":
        return hg.Select(make_quantity(spec, force), build(spec["cut"], force))
    if k == "Label":
        return hg.Label(**{key: build(v, force) for key, v in spec["pairs"].items()})
    if k == "UntypedLabel":
        return hg.UntypedLabel(**{key: build(v, force) for key, v in spec["pairs"].items()})
    if k == "Index":
        return hg.Index(*[build(v, force) for v in spec["values"]])
    if k == "Branch":
        return hg.Branch(*[build(v, force) for v in spec["values"]])
    raise ValueError(k)


# ----------------------------------------------------------------------------------------------
# walking specs

CHILD_SLOTS = {
    "Bin": ("value", "under", "over", "nan"),
    "SparselyBin": ("value", "nan"),
    "CentrallyBin": ("value", "nan"),
    "IrregularlyBin": ("value", "nan"),
    "Stack": ("value", "nan"),
    "Categorize": ("value",),
    "Fraction": ("value",),
    "Select": ("cut",),
}


def children(spec):
    """[(slot, child spec)] of a spec node."""
    k = spec["k"]
    if k in CHILD_SLOTS:
        return [(s, spec[s]) for s in CHILD_SLOTS[k]]
    if k in ("Label", "UntypedLabel"):
        return [("pairs:" + key, v) for key, v in spec["pairs"].items()]
    if k in ("Index", "Branch"):
        return [("values:%d" % i, v) for i, v in enumerate(spec["values"])]
    return []


def walk(spec, path=()):
    yield path, spec
    for slot, ch in children(spec):
        yield from walk(ch, path + (slot,))


def get_at(spec, path):
    for slot in path:
        if ":" in slot:
            a, b = slot.split(":", 1)
            spec = spec[a][int(b)] if a == "values" else spec[a][b]
        else:
            spec = spec[slot]
    return spec


def set_at(spec, path, new):
    """Return a deep copy of spec with the node at path replaced by new."""
    import copy

    spec = copy.deepcopy(spec)
    if not path:
        return copy.deepcopy(new)
    parent = get_at(spec, path[:-1])
    slot = path[-1]
    if ":" in slot:
        a, b = slot.split(":", 1)
        if a == "values":
            parent[a][int(b)] = copy.deepcopy(new)
        else:
            parent[a][b] = copy.deepcopy(new)
    else:
        parent[slot] = copy.deepcopy(new)
    return spec


def has_quantity(spec):
    return any("f" in n for _, n in walk(spec))


def has_transform(spec):
    return any(n["k"] == "Count" and n.get("t") for _, n in walk(spec))


def kinds_in(spec):
    return {n["k"] for _, n in walk(spec)}


def flavours_in(spec):
    return {n.get("qf", "lambda") for _, n in walk(spec) if "f" in n}


def real_size(spec):
    """Estimated number of real aggregator objects of a freshly built tree."""
    k = spec["k"]
    if k == "Bin":
        return 1 + spec["num"] * real_size(spec["value"]) + sum(real_size(spec[s]) for s in ("under", "over", "nan"))
    if k == "CentrallyBin":
        return 1 + len(spec["centers"]) * real_size(spec["value"]) + real_size(spec["nan"])
    if k in ("IrregularlyBin", "Stack"):
        return 1 + (len(spec["edges"]) + 1) * real_size(spec["value"]) + real_size(spec["nan"])
    if k == "SparselyBin":
        return 1 + 4 * real_size(spec["value"]) + real_size(spec["nan"])
    if k == "Categorize":
        return 1 + 4 * real_size(spec["value"])
    if k == "Fraction":
        return 1 + 2 * real_size(spec["value"])
    return 1 + sum(real_size(c) for _, c in children(spec))


def describe(spec):
    """Compact one-line rendering of a spec (for evidence samples and messages)."""
    k = spec["k"]
    if k == "Count":
        return "Count" + ("[%s%s]" % (spec["t"], ",cached" if spec.get("tc") else "") if spec.get("t") else "")
    q = ""
    if "f" in spec:
        q = spec["f"] + ("," + spec["f2"] if "f2" in spec else "") + ":" + spec.get("qf", "lambda")
    if k in LEAF_Q:
        return "%s(%s)" % (k, q)
    if k == "Bag":
        return "Bag(%s,%s)" % (q, spec["range"])
    if k == "Bin":
        return "Bin(%d,%r,%r,%s,%s|u=%s,o=%s,n=%s)" % (
            spec["num"],
            spec["low"],
            spec["high"],
            q,
            describe(spec["value"]),
            describe(spec["under"]),
            describe(spec["over"]),
            describe(spec["nan"]),
        )
    if k == "SparselyBin":
        return "SparselyBin(%r,%r,%s,%s|n=%s)" % (spec["bw"], spec["origin"], q, describe(spec["value"]), describe(spec["nan"]))
    if k == "CentrallyBin":
        return "CentrallyBin(%r,%s,%s|n=%s)" % (spec["centers"], q, describe(spec["value"]), describe(spec["nan"]))
    if k in ("IrregularlyBin", "Stack"):
        return "%s(%r,%s,%s|n=%s)" % (k, spec["edges"], q, describe(spec["value"]), describe(spec["nan"]))
    if k == "Categorize":
        return "Categorize(%s,%s)" % (q, describe(spec["value"]))
    if k == "Fraction":
        return "Fraction(%s,%s)" % (q, describe(spec["value"]))
    if k == "Select":
        return "Select(%s,%s)" % (q, describe(spec["cut"]))
    if k in ("Label", "UntypedLabel"):
        return "%s(%s)" % (k, ",".join("%s=%s" % (a, describe(b)) for a, b in spec["pairs"].items()))
    return "%s(%s)" % (k, ",".join(describe(v) for v in spec["values"]))


# ----------------------------------------------------------------------------------------------
# configurations

BIN_DYADIC = [(4, 0.0, 2.0), (2, -1.0, 1.0), (8, 0.0, 1.0), (1, 0.0, 1.0), (5, 0.0, 5.0), (3, -1.5, 1.5), (2, 0.0, 4.0)]
BIN_HOSTILE = [
    (10, 0.0, 1.0),
    (3, 0.0, 1.0),
    (10, 0.0, 0.3),
    (7, 0.1, 0.8),
    (3, -0.3, 0.6),
    (6, -1.0 / 3, 5.0 / 3),
    (12, 1e6 + 0.1, 1e6 + 1.3),
    (5, 1e15, 1e15 + 10),
    (9, -0.7, 0.2),
]
SP_DYADIC = [(0.5, 0.0), (1.0, 0.0), (2.0, -1.0), (0.25, 0.125)]
SP_HOSTILE = [(0.1, 0.0), (0.3, 0.1), (1.0 / 3, 0.0), (0.7, -0.2), (0.1, 1e6 + 0.1), (1.0, 1e15)]
CENTERS_DYADIC = [[0.0, 1.0, 3.0], [-1.0, 1.0], [0.5, 1.5, 2.5, 10.0], [3.0, 0.0, 1.0]]
CENTERS_HOSTILE = [[0.1, 0.2, 0.3, 0.7], [1e6 + 0.1, 1e6 + 0.2], [-0.3, 0.3, 1.0 / 3], [1.0, 2.0, 2.0, 3.0]]  # the last: a repeated centre (quantiles of discrete data)
EDGES_DYADIC = [[0.0, 1.0, 3.0], [-1.0], [0.5, 1.5], [0.0, 0.25, 0.5, 0.75], []]
EDGES_HOSTILE = [[0.1, 0.2, 0.3], [1.0 / 3, 2.0 / 3], [1e6 + 0.1, 1e6 + 0.7]]

LABEL_KEYS = ["a", "b", "x1", "entries", "k y", "value", "bins", "i0", "quantity"]  # incl. names the library uses for attributes
CATEGORIES = ["a", "b", "c", "", "entries", "NaN", "1.5", "zz", "contentType", "inf", "nan"]
STRINGS = ["a", "b", "", "entries", "x y", "nan", "inf", "-inf"]  # incl. the spellings the JSON format uses for non-finite numbers
SELECTIONS = [True, False, 0, 1, 0.5, 2, -1, float("nan"), 0.25, 1.0, 0.0]
WEIGHTS_POS = [1.0, 1.0, 1.0, 1.0, 0.5, 2.0, 0.25, 1.5, 3.0, 0.125, 1, 2]
WEIGHTS_NONPOS = [0.0, -1.0, float("nan"), -0.5, 0]
GENERIC_NUM = [0.0, 1.0, -1.0, 0.5, 2.5, -3.25, 100.0, 0.001, 7.0, -0.75]
SPECIAL_NUM = [float("nan"), float("inf"), float("-inf"), -0.0]
FACTORS_POS = [0.25, 0.5, 1, 1.0, 1.5, 2, 2.0, 3, 8.0]
FACTORS_NONPOS = [0, 0.0, -1, -0.5, float("nan")]


def ulps(v, n):
    for _ in range(abs(n)):
        v = math.nextafter(v, math.inf if n > 0 else -math.inf)
    return v


def bin_edge(node, i):
    """Edge i of a Bin node computed the way Bin.range does."""
    return (node["high"] - node["low"]) * i / node["num"] + node["low"]


def critical_values(spec):
    """{field: sorted list of critical numeric values} for the numeric fields read by binning nodes."""
    out = {}

    def add(f, v):
        if isinstance(v, float) and (math.isnan(v) or math.isinf(v)):
            return
        out.setdefault(f, set()).add(float(v))

    def around(f, v):
        for n in (-3, -2, -1, 0, 1, 2, 3):
            add(f, ulps(float(v), n))

    for _, n in walk(spec):
        k = n["k"]
        f = n.get("f")
        if k == "Bin":
            num = n["num"]
            idx = range(num + 1) if num <= 12 else [0, 1, 2, num // 2, num - 2, num - 1, num]
            for i in idx:
                e = bin_edge(n, i)
                around(f, e)
                if i < num:
                    add(f, (e + bin_edge(n, i + 1)) / 2.0)
            around(f, n["low"])
            around(f, n["high"])
            add(f, n["low"] - 10.0)
            add(f, n["high"] + 10.0)
        elif k == "SparselyBin":
            for i in (-3, -2, -1, 0, 1, 2, 3, 10):
                e = n["origin"] + i * n["bw"]
                around(f, e)
                add(f, e + n["bw"] / 2.0)
            add(f, 1e300)
            add(f, -1e300)
        elif k == "CentrallyBin":
            cs = sorted(n["centers"])
            for c in cs:
                around(f, c)
            for a, b in zip(cs, cs[1:]):
                around(f, (a + b) / 2.0)
            add(f, cs[0] - 5.0)
            add(f, cs[-1] + 5.0)
        elif k in ("IrregularlyBin", "Stack"):
            es = n["edges"]
            for e in es:
                around(f, e)
            for a, b in zip(es, es[1:]):
                add(f, (a + b) / 2.0)
            if es:
                add(f, es[0] - 5.0)
                add(f, es[-1] + 5.0)
    return {f: sorted(v) for f, v in out.items()}


# ----------------------------------------------------------------------------------------------
# generation


def gen_flavour(rng, o):
    fl = o.get("flavours", FLAVOURS)
    return rng.choice(fl)


def gen_leaf(rng, o, kind=None):
    kinds = o.get("leaf_kinds") or ("Count", "Count", "Sum", "Average", "Deviate", "Minimize", "Maximize", "Bag", "CountT")
    k = kind or rng.choice(kinds)
    if k == "CountT" and not o.get("transforms", True):
        k = "Count"
    if k == "Count":
        return {"k": "Count"}
    if k == "CountT":
        n = {"k": "Count", "t": rng.choice(["dbl", "sq"])}
        if rng.random() < 0.25:
            n["tn"] = rng.choice(["square", "identity", "unweighted"])
        if rng.random() < 0.35:
            n["tc"] = True  # the transform wrapped in cached(): its argument is the weight (a scalar, or the weights array)
        return n
    if k == "Bag":
        r = rng.choice(o.get("bag_ranges", ("N", "N2", "S")))
        if r == "S":
            return {"k": "Bag", "range": "S", "f": "t", "qf": gen_flavour(rng, o)}
        if r == "N2":
            return {"k": "Bag", "range": "N2", "f": rng.choice(NUMF), "f2": rng.choice(NUMF), "qf": gen_flavour(rng, o)}
        return {"k": "Bag", "range": "N", "f": rng.choice(NUMF), "qf": gen_flavour(rng, o)}
    f = rng.choice(NUMF)
    if k in ("Minimize", "Maximize") and rng.random() < 0.15 and o.get("bool_extrema", True):
        f = rng.choice(SELF)  # a boolean-valued quantity (lambda d: d.x > 1): the extreme is stored, and serialised, as a bool
    return {"k": k, "f": f, "qf": gen_flavour(rng, o)}


DEC = [-1.1, -0.7, -0.3, -0.1, 0.1, 0.2, 0.3, 0.7, 1.1, 2.2, 1.0 / 3, 2.0 / 3, 1e6 + 0.1, 1e6 + 0.7]
DEC_WIDTHS = [0.3, 0.7, 0.9, 1.0, 1.1, 1.3, 1.0 / 3]


def gen_config(rng, k, o, small=False):
    """Geometry of a binning: dyadic (every edge exact), a hand-picked hostile one, or - half of the hostile draws -
    drawn from a pool of decimal fractions, so that edge / midpoint formulas that are algebraically equal but round
    differently are told apart on ever-new geometries."""
    hostile = rng.random() < o.get("hostile", 0.4)
    drawn = hostile and rng.random() < 0.5
    if k == "Bin":
        if drawn:
            low = rng.choice(DEC)
            num, high = rng.choice([1, 2, 3, 5, 7, 10, 12]), low + rng.choice(DEC_WIDTHS)
        else:
            num, low, high = rng.choice(BIN_HOSTILE if hostile else BIN_DYADIC)
        if small and num > 5:
            num, low, high = rng.choice(BIN_DYADIC[:2] + BIN_DYADIC[3:4])
        return {"num": num, "low": low, "high": high}
    if k == "SparselyBin":
        if drawn:
            return {"bw": rng.choice(DEC_WIDTHS[:3] + DEC_WIDTHS[4:]), "origin": rng.choice(DEC)}
        bw, origin = rng.choice(SP_HOSTILE if hostile else SP_DYADIC)
        return {"bw": bw, "origin": origin}
    if k == "CentrallyBin":
        if drawn:
            return {"centers": rng.sample(DEC, rng.randint(2, 4))}
        return {"centers": list(rng.choice(CENTERS_HOSTILE if hostile else CENTERS_DYADIC))}
    if k in ("IrregularlyBin", "Stack"):
        if drawn:
            es = rng.sample(DEC, rng.choice([1, 2, 3, 4, 4, 9, 10]))  # also long lists: code may switch paths on the bin count
            # a Stack keeps its cuts in the order given and treats each one on its own: any order is legitimate there
            return {"edges": es if (k == "Stack" and rng.random() < 0.5) else sorted(es)}
        es = list(rng.choice(EDGES_HOSTILE if hostile else EDGES_DYADIC))
        if k == "Stack" and len(es) > 1 and rng.random() < 0.3:
            rng.shuffle(es)
        return {"edges": es}
    return {}


def gen_container(rng, k, depth, o, child=None):
    """Container of kind k; children generated at depth-1 (child: optional forced generator)."""

    def sub(small=False):
        if child is not None:
            return child()
        return gen_spec(rng, depth - 1, o)

    def flow():
        # flows are usually Count, sometimes anything
        if rng.random() < 0.7:
            return {"k": "Count"}
        return gen_spec(rng, min(depth - 1, 1), o)

    qf = gen_flavour(rng, o)
    if k == "Bin":
        n = {"k": "Bin", "f": rng.choice(NUMF), "qf": qf, **gen_config(rng, "Bin", o, small=depth > 1)}
        n.update(value=sub(), under=flow(), over=flow(), nan=flow())
        return n
    if k in ("SparselyBin", "CentrallyBin", "IrregularlyBin", "Stack"):
        n = {"k": k, "f": rng.choice(NUMF), "qf": qf, **gen_config(rng, k, o)}
        n.update(value=sub(), nan=flow())
        return n
    if k == "Categorize":
        return {"k": k, "f": "c", "qf": qf, "value": sub()}
    if k == "Fraction":
        return {"k": k, "f": rng.choice(SELF), "qf": qf, "value": sub()}
    if k == "Select":
        return {"k": k, "f": rng.choice(SELF), "qf": qf, "cut": sub()}
    if k in ("Label", "Index"):
        n = rng.randint(1, 3)
        first = sub()
        kids = [first]
        for _ in range(n - 1):
            kids.append(same_type_variant(rng, first, depth - 1, o))
        if k == "Label":
            keys = rng.sample(LABEL_KEYS, n)
            return {"k": k, "pairs": dict(zip(keys, kids))}
        return {"k": k, "values": kids}
    if k == "UntypedLabel":
        n = rng.randint(1, 3)
        keys = rng.sample(LABEL_KEYS, n)
        return {"k": k, "pairs": {key: sub() for key in keys}}
    if k == "Branch":
        n = rng.randint(1, 3)
        return {"k": k, "values": [sub() for _ in range(n)]}
    raise ValueError(k)


def same_type_variant(rng, first, depth, o):
    """Another spec of the same primitive type as `first` (Label/Index need uniform types)."""
    k = first["k"]
    if k == "Count":
        return dict(first) if rng.random() < 0.5 else {"k": "Count"}
    if k in LEAF_Q:
        return {"k": k, "f": rng.choice(NUMF), "qf": gen_flavour(rng, o)}
    if k == "Bag":
        n = dict(first)
        if first["range"] != "S":
            n["f"] = rng.choice(NUMF)
        n["qf"] = gen_flavour(rng, o)
        return n
    return gen_container(rng, k, max(depth, 1), o)


def gen_spec(rng, depth, o):
    if depth <= 0 or rng.random() < o.get("leaf_p", 0.25):
        return gen_leaf(rng, o)
    kinds = o.get("container_kinds", CONTAINERS)
    for _ in range(20):
        s = gen_container(rng, rng.choice(kinds), depth, o)
        if real_size(s) <= o.get("budget", 150):
            return s
    return gen_leaf(rng, o)


def default_child(k, rng=None, o=None):
    """A small fixed spec of kind k, used by the stratified tables."""
    import random

    rng = rng or random.Random(0)
    o = dict(o or {})
    o.setdefault("flavours", ("lambda",))
    if k in ("Count", "CountT") or k in LEAF_Q or k == "Bag":
        return gen_leaf(rng, o, kind=k)
    if k.startswith("Bag:"):
        o["bag_ranges"] = (k.split(":")[1],)
        return gen_leaf(rng, o, kind="Bag")
    return gen_container(rng, k, 1, dict(o, hostile=0.0), child=lambda: {"k": "Count"})


CHILD_KINDS = (
    ("Count", "CountT")
    + LEAF_Q
    + ("Bag:N", "Bag:N2", "Bag:S")
    + CONTAINERS
)


def stratified_specs(rng, o=None):
    """Table (container kind x child position x child kind): every primitive in every position."""
    o = dict(o or {})
    out = []
    for ck in CONTAINERS:
        if ck in CHILD_SLOTS:
            slots = CHILD_SLOTS[ck]
        else:
            slots = ("member",)
        for slot in slots:
            for kk in CHILD_KINDS:
                if kk == "CountT" and not o.get("transforms", True):
                    continue
                base = gen_container(rng, ck, 1, dict(o, hostile=0.3, flavours=o.get("flavours", FLAVOURS)), child=lambda: {"k": "Count"})
                ch = default_child(kk, rng, dict(o, flavours=o.get("flavours", FLAVOURS)))
                if slot == "member":
                    if ck in ("Label", "UntypedLabel"):
                        keys = list(base["pairs"].keys())
                        if ck == "Label":
                            base["pairs"] = {key: (ch if i == 0 else same_type_variant(rng, ch, 1, o)) for i, key in enumerate(keys)}
                        else:
                            base["pairs"][keys[-1]] = ch
                    else:
                        if ck == "Index":
                            base["values"] = [ch if i == 0 else same_type_variant(rng, ch, 1, o) for i in range(len(base["values"]))]
                        else:
                            base["values"][-1] = ch
                else:
                    base[slot] = ch
                    if ck == "Bin":
                        # keep the real tree small
                        if base["num"] > 5 and real_size(base) > 150:
                            base.update(num=4, low=0.0, high=2.0)
                out.append(("%s.%s<-%s" % (ck, slot, kk), base))
    return out


def leaf_root_specs(rng, o=None):
    o = dict(o or {})
    out = []
    for kk in CHILD_KINDS:
        if kk in CONTAINERS:
            continue
        if kk == "CountT" and not o.get("transforms", True):
            continue
        for fl in o.get("flavours", FLAVOURS):
            s = default_child(kk, rng, dict(o, flavours=(fl,)))
            out.append(("root:%s:%s" % (kk, fl), s))
            if "f" not in s:
                break
    return out


# ----------------------------------------------------------------------------------------------
# records and weights


def gen_value(rng, field, crit, o):
    r = rng.random()
    cv = crit.get(field)
    if cv and r < 0.6:
        return rng.choice(cv)
    if r < 0.8:
        return rng.choice(GENERIC_NUM)
    if r < 0.8 + o.get("special_p", 0.12):
        return rng.choice(SPECIAL_NUM)
    # a random dyadic number in a moderate range
    return rng.randint(-64, 64) / 8.0


def gen_record(rng, crit, o):
    rec = {f: gen_value(rng, f, crit, o) for f in NUMF}
    c = rng.choice(CATEGORIES + ["a", "b"])
    if o.get("cat_none", True) and rng.random() < 0.12:
        c = rng.choice([None, float("nan")])
    elif o.get("cat_bool", False) and rng.random() < 0.1:
        c = rng.choice([True, False])  # booleans are legitimate categories (keys True/False, "True"/"False" in JSON)
    rec["c"] = c
    rec["t"] = rng.choice(STRINGS)
    for f in SELF:
        rec[f] = rng.choice(SELECTIONS) if rng.random() < 0.8 else True
    return rec


def retype_value(rng, v):
    """The same number in another numeric type a quantity function may return (the elements of an integer or float32
    column, a numpy boolean from a comparison).  Only value-preserving conversions: integers for integral values,
    float32 only for NaN (float32 arithmetic is legitimately less precise)."""
    import numpy as np

    if isinstance(v, bool):
        return v  # numpy.bool_ is not a number (numbers.Real): the library rejects it by design, see DESIGN 5.3
    if isinstance(v, int):
        return rng.choice([v, np.int64(v), np.int32(v)])
    if not isinstance(v, float):
        return v
    if v != v:
        return rng.choice([np.float64(v), np.float32(v)])
    if v in (float("inf"), float("-inf")):
        # not float32 / float16: numpy casts the Python float on the other side of an operator to the narrow type
        # (inf - 1e15 is NaN in float16, float32(inf) > 1e300 is False), which is the type's arithmetic, not the library's
        return np.float64(v)
    c = [np.float64(v)]
    if v.is_integer() and abs(v) < 2**31 and not (v == 0 and math.copysign(1.0, v) < 0):
        c += [int(v), np.int64(int(v))]
        if abs(v) < 2**24:
            # narrow integer types only where value * weight cannot wrap around (uint8(100) * 4 is 144 by numpy's
            # own promotion rules - the arithmetic of the type, not of the library); no unsigned types for that reason
            c.append(np.int32(int(v)))
    return rng.choice(c)


def retype_record(rng, rec, p=0.6):
    """Copy of the record with each numeric / selection field re-typed with probability p (values unchanged)."""
    out = dict(rec)
    import numpy as np

    for f in NUMF + SELF:
        if rng.random() < p:
            v = retype_value(rng, rec[f])
            if f in SELF and isinstance(v, np.unsignedinteger):
                # a selection value becomes the weight handed down; an unsigned numpy weight times a negative Python int
                # is an OverflowError by numpy's own promotion rules (NEP 50), whatever the library does
                v = np.int64(v)
            out[f] = v
    return out


def gen_weight(rng, o):
    if rng.random() < o.get("nonpos_p", 0.15):
        return rng.choice(WEIGHTS_NONPOS)
    return rng.choice(WEIGHTS_POS)


def gen_stream(rng, spec, n, o=None):
    o = o or {}
    crit = critical_values(spec)
    return [(gen_record(rng, crit, o), gen_weight(rng, o)) for _ in range(n)]


def jsonable(v):
    """Make records/weights JSON-able for replay files (NaN/inf as strings)."""
    if isinstance(v, float):
        if math.isnan(v):
            return "nan"
        if math.isinf(v):
            return "inf" if v > 0 else "-inf"
        return v
    if isinstance(v, dict):
        return {str(k): jsonable(x) for k, x in v.items()}
    if isinstance(v, (list, tuple)):
        return [jsonable(x) for x in v]
    if isinstance(v, (bool, int, str)) or v is None:
        return v
    try:
        import numpy

        if isinstance(v, numpy.generic):
            return jsonable(v.item())
        if isinstance(v, numpy.ndarray):
            return jsonable(v.tolist())
    except ImportError:
        pass
    return repr(v)
