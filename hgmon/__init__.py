"""hgmon: runtime monitors for histogrammar-python (properties C01-C17). See /verif/DESIGN.md."""
