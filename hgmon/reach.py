"""Reach coverage through sys.monitoring: which functions (by qualified name) and how many distinct
lines of histogrammar/** were executed while the monitors were watching.  Every callback returns
DISABLE after the first hit of a location, so the cost is paid once per location.
"""

import os
import sys

from . import env

TOOL = 3  # an otherwise unused tool id


class Reach:
    def __init__(self):
        self.funcs = set()
        self.lines = {}
        self.active = False
        self.prefix = os.path.join(env.REPO, "histogrammar") + os.sep

    def start(self):
        mon = getattr(sys, "monitoring", None)
        if mon is None:
            return
        try:
            mon.use_tool_id(TOOL, "hgmon-reach")
        except ValueError:
            return
        E = mon.events

        def on_start(code, offset):
            fn = code.co_filename
            if fn.startswith(self.prefix):
                self.funcs.add(fn[len(self.prefix) : -3].replace(os.sep, ".") + ":" + code.co_qualname)
            return mon.DISABLE

        def on_line(code, line):
            fn = code.co_filename
            if fn.startswith(self.prefix):
                self.lines.setdefault(fn[len(self.prefix) :], set()).add(line)
            return mon.DISABLE

        mon.register_callback(TOOL, E.PY_START, on_start)
        mon.register_callback(TOOL, E.LINE, on_line)
        mon.set_events(TOOL, E.PY_START | E.LINE)
        self.active = True

    def stop(self):
        if not self.active:
            return
        mon = sys.monitoring
        mon.set_events(TOOL, 0)
        mon.free_tool_id(TOOL)
        self.active = False

    def export(self):
        return {"funcs": sorted(self.funcs), "lines": {f: sorted(v) for f, v in self.lines.items()}}


def merge(parts):
    funcs = set()
    lines = {}
    for p in parts:
        funcs.update(p.get("funcs", ()))
        for f, ls in p.get("lines", {}).items():
            lines.setdefault(f, set()).update(ls)
    return funcs, lines


def missing(required, funcs):
    """required: iterable of 'module:qualname' patterns (exact); returns those never started."""
    return sorted(r for r in required if r not in funcs)
