"""History driver: a pool of aggregators built from one spec, a seeded sequence of operations, and
after every operation (a) the ghost-multiset reference-model check of the member that was written or
created, (b) the bookkeeping-invariant walk (C05), (c) the frame check: every live member outside
the operation's write-set must be textually unchanged (C06).

Ghost state of a member: (items = weighted multiset it should hold, fillable?).  fill adds, + / +=
unite, *f multiplies weights (or empties for f <= 0 / NaN), zero empties, copy / JSON / pickle
preserve (a JSON reload is not fillable; live + reload is, reload + live is not).
"""

import json
import math
import pickle

from . import batch as B, env, observe as O, refmodel as R, spec as S


def _count_before_quantity(sp):
    """In traversal order, is a Count reached through collections only, before any quantity-bearing node has
    fixed the batch length?  (Trigger of the C03 known finding Count-before-quantity.scalar-weight.)"""
    k = sp["k"]
    if k == "Count":
        return True
    if k in ("Label", "UntypedLabel"):
        # members may be listed in any order (permuted pool members, sort_keys reloads)
        rs = [_count_before_quantity(ch) for _, ch in S.children(sp)]
        return True if any(r is True for r in rs) else (False if all(r is False for r in rs) else None)
    if k in S.COLLECTIONS:
        for _, ch in S.children(sp):
            r = _count_before_quantity(ch)
            if r is True:
                return True
            if r is False:
                return False
        return None
    return False


class Member:
    __slots__ = ("obj", "items", "fillable", "origin", "tag", "pure")

    def __init__(self, obj, items, fillable, origin, tag):
        self.obj = obj
        self.items = items
        self.fillable = fillable
        self.origin = origin
        self.tag = tag
        self.pure = True  # never went through JSON (which drops Count transforms by design)


PURE_READS = ("toJson", "toJsonString", "eq", "ne", "hash", "repr", "children", "n_dim", "datatype")


class History:
    def __init__(self, sp, rng, profile, force=None):
        self.sp = sp
        self.rng = rng
        self.profile = profile
        self.force = force
        self.pool = []
        self.log = []
        self.failures = []
        self.counters = {}
        self.sets = {}
        self.crit = S.critical_values(sp)
        self.has_transform = S.has_transform(sp)
        self.has_sparse = bool(S.kinds_in(sp) & {"SparselyBin", "Categorize"})
        self.np_ok = profile.get("numpy", True)
        self.scalar_np_ok = not _count_before_quantity(sp)
        self.pending = []  # scheduled perturbations [(kind, member index)]
        self.opts = dict(profile.get("gen", {}))

    # ------------------------------------------------------------------ helpers
    def count(self, k, n=1):
        self.counters[k] = self.counters.get(k, 0) + n

    def fail(self, msg, key=None, **kw):
        self.failures.append({"key": key, "msg": msg, "witness": dict(kw, tree=S.describe(self.sp), spec=self.sp, ops=list(self.log))})

    def new_member(self, obj, items, fillable, origin):
        m = Member(obj, list(items), fillable, origin, "m%d" % len(self.pool))
        self.pool.append(m)
        return m

    def texts(self):
        """Observation of every live member: the JSON text plus a fingerprint taken directly from the objects
        (key sets with their Python types, container lengths), so that a read that rewrites state in a way the
        document does not show - e.g. toJson turning a key True into 'True' - is still seen."""
        out = []
        for m in self.pool:
            try:
                fp = fingerprint(m.obj)  # before toJson: see fingerprint()
                txt = O.text(m.obj)
                fp2 = fingerprint(m.obj)
                self.count("read_idempotence_checked")
                if fp2 != fp:
                    # serialising is a pure read; it must not be the thing that changes the raw attributes
                    self.fail("toJson() changed the raw state of member %s: %s -> %s" % (m.tag, _first_diff(fp, fp2), _first_diff(fp2, fp)), op="toJson (observation)")
                try:
                    hash(m.obj)
                except Exception:  # noqa: BLE001
                    pass
                fp3 = fingerprint(m.obj)
                if fp3 != fp2:
                    self.fail("hash() changed the raw state of member %s: %s -> %s" % (m.tag, _first_diff(fp2, fp3), _first_diff(fp3, fp2)), op="hash (observation)")
                out.append(txt + " #" + fp3)
            except Exception as e:  # noqa: BLE001
                out.append("<toJson raised %s>" % type(e).__name__)
        return out

    def record(self):
        """A record; half of the time one already held by some member (lands in existing bins)."""
        held = [r for m in self.pool for r, _ in m.items]
        if held and self.rng.random() < 0.5:
            return dict(self.rng.choice(held))
        return S.gen_record(self.rng, self.crit, self.opts)

    # ------------------------------------------------------------------ oracles
    def ghost_check(self, m, opdesc):
        try:
            raw = O.observe(m.obj)
        except Exception as e:  # noqa: BLE001
            self.fail("toJson raised %s after %s: %s" % (type(e).__name__, opdesc, str(e)[:200]), op=opdesc)
            return
        # vectorised fills legitimately create sparse bins/categories holding zero weight (C03 compares
        # modulo those), and they survive merges and copies: histories compare modulo them throughout
        obs = O.drop_zero_sparse(raw) if self.np_ok else raw
        scale = O.scale_of(m.items) if m.items else 1.0
        ok, d, namb, inc = R.match(self.sp, m.items, obs, scale, force=self.force, norm=O.drop_zero_sparse if self.np_ok else None)
        self.count("ghost_checks")
        if inc:
            self.count("ghost_inconclusive")
        elif not ok:
            self.fail("after %s member %s differs from the model of its multiset: %s" % (opdesc, m.tag, _fmt(d)), op=opdesc, ghost=[[S.jsonable(r), S.jsonable(w)] for r, w in m.items][:12])
        for v in accessor_violations(m.obj, counters=self.counters):
            self.fail("accessor invariant broken after %s on %s: %s" % (opdesc, m.tag, v), op=opdesc)
        if self.profile.get("invariants", True):
            viol = []
            invariants(self.sp, raw["data"], viol, self.counters)
            for v in viol:
                self.fail("bookkeeping invariant broken after %s on %s: %s" % (opdesc, m.tag, v), op=opdesc)
            tot = sum(float(w) for _, w in m.items if R.gate(w))
            ent = _entries(self.sp, raw["data"])
            if not (self.sp["k"] == "Count" and self.sp.get("t")):
                self.count("entries_vs_ghost_total")
                if not _close(ent, tot):
                    self.fail("root entries %r != total weight given %r after %s" % (ent, tot, opdesc), op=opdesc)

    def frame(self, before, write_idx, opdesc):
        """Every member not in the write-set must be textually unchanged."""
        if not self.profile.get("frame", True):
            return
        after = self.texts()
        for j, (a, b) in enumerate(zip(before, after)):
            if j in write_idx:
                continue
            self.count("frame_checks")
            if a != b:
                ja, jb = a.split(" #")[0], b.split(" #")[0]
                d = O.diff(O.canon(json.loads(ja)), O.canon(json.loads(jb)), 0.0, exact=True) if not a.startswith("<") and not b.startswith("<") else [("$", a[:80], b[:80])]
                if not d:
                    d = [("object fingerprint", a.split(" #")[-1][:200], b.split(" #")[-1][:200])]
                self.fail("%s changed member %s, which is outside its write-set: %s" % (opdesc, self.pool[j].tag, _fmt(d)), op=opdesc, changed=self.pool[j].tag)

    # ------------------------------------------------------------------ operations
    def step(self):
        rng = self.rng
        if self.pending:
            kind, idx = self.pending.pop(0)
            if kind == "fill":
                return self.op_fill(idx)
            if kind == "fillnp":
                return self.op_fillnp(idx)
        ops = self.profile["ops"]
        op = rng.choices([o for o, _ in ops], [w for _, w in ops])[0]
        return getattr(self, "op_" + op)(rng.randrange(len(self.pool)))

    def op_fill(self, i):
        m = self.pool[i]
        if not m.fillable:
            return self.op_read(i)
        rec = self.record()
        w = S.gen_weight(self.rng, self.opts)
        desc = "%s.fill(%s, %r)" % (m.tag, _short(rec), S.jsonable(w))
        self.log.append(desc)
        before = self.texts()
        given = rec
        if self.profile.get("retype") and self.rng.random() < 0.3:
            # the same numbers as numpy / Python integers, numpy float64, float32 NaN ...: what a quantity returns
            # when the caller iterates over typed columns; the ghost multiset keeps the plain values
            given = S.retype_record(self.rng, rec)
            types = sorted({type(v).__name__ for f, v in given.items() if f in S.NUMF + S.SELF})
            desc += " [typed: %s]" % ",".join(types)
            self.log[-1] = desc
            for t in types:
                self.count("fill_value_type:" + t)
        try:
            m.obj.fill(given, w)
        except Exception as e:  # noqa: BLE001
            self.fail("fill raised %s: %s" % (type(e).__name__, str(e)[:200]), op=desc)
            return
        m.items.append((rec, w))
        self.count("op:fill")
        self.frame(before, {i}, desc)
        self.ghost_check(m, desc)

    def op_fillnp(self, i):
        m = self.pool[i]
        if not m.fillable or not self.np_ok or not S.has_quantity(self.sp):
            return self.op_fill(i)
        n = self.rng.randint(0, 5)
        recs = [self.record() for _ in range(n)]
        sum_fields = {nd["f"] for _, nd in S.walk(self.sp) if nd["k"] == "Sum"}
        for r in recs:
            if r["c"] is None or isinstance(r["c"], float):
                r["c"] = "NaN"
            for f in sum_fields:  # known finding Sum.numpy-drops-nan is C03's; keep it out of histories
                if r[f] != r[f]:
                    r[f] = 0.5
        ws = [self.rng.choice([1.0, 1.0, 0.5, 2.0, 0.0, 0.25, 3.0]) for _ in range(n)]
        if self.rng.random() < 0.12:
            # nearly but not exactly unit weights (dyadic: sums stay exact): a batch that is not a unit-weight batch
            ws = [self.rng.choice([1.0 + 2.0**-18, 1.0 - 2.0**-19, 1.0 + 2.0**-30]) for _ in range(n)]
            self.count("fillnp_near_unit_weights")
        scalar = None
        if self.scalar_np_ok and self.rng.random() < 0.35:
            # scalar (or omitted) weight: only for trees that cannot meet the C03 known finding about a Count
            # visited before any quantity-bearing node
            scalar = self.rng.choice(["omitted", 1, 1.0, 2.0, 0.5])
            ws = [1.0 if scalar == "omitted" else float(scalar)] * n
        # a dict of arrays or a numpy record array (a DataFrame needs string-expression quantities): the vectorised
        # paths branch on the kind of container the batch is
        rep = "recarray" if (self.rng.random() < 0.3 and self.force != "str") else "dict"
        bat = B.Batch(B.columns(recs), rep)
        rows = B.rows(bat.saved, n)
        desc = "%s.fill.numpy(%d rows%s, weights=%r)" % (m.tag, n, " as a record array" if rep == "recarray" else "", ws if scalar is None else scalar)
        self.count("op:fillnp:" + rep)
        self.log.append(desc)
        before = self.texts()
        try:
            if scalar is None:
                m.obj.fill.numpy(bat.data, B.weights_array(ws))
            elif scalar == "omitted":
                m.obj.fill.numpy(bat.data)
            else:
                m.obj.fill.numpy(bat.data, scalar)
            self.count("op:fillnp:scalar" if scalar is not None else "op:fillnp:array")
        except Exception as e:  # noqa: BLE001
            self.fail("fill.numpy raised %s: %s" % (type(e).__name__, str(e)[:200]), op=desc, rows=[[S.jsonable(r), w] for r, w in zip(rows, ws)])
            return
        m.items.extend(zip(rows, ws))
        self.count("op:fillnp")
        self.frame(before, {i}, desc)
        # zero-weight rows may create empty sparse bins in the vectorised path: compare modulo those
        self.ghost_check_np(m, desc)

    def ghost_check_np(self, m, desc):
        try:
            obs = O.drop_zero_sparse(O.observe(m.obj))
        except Exception as e:  # noqa: BLE001
            self.fail("toJson raised %s after %s" % (type(e).__name__, desc), op=desc)
            return
        scale = O.scale_of(m.items) if m.items else 1.0
        ok, d, _, inc = R.match(self.sp, m.items, obs, scale, force=self.force, norm=O.drop_zero_sparse)
        self.count("ghost_checks")
        if inc:
            self.count("ghost_inconclusive")
        elif not ok:
            self.fail("after %s member %s differs from the model of its multiset: %s" % (desc, m.tag, _fmt(d)), op=desc)
        for v in accessor_violations(m.obj, counters=self.counters):
            self.fail("accessor invariant broken after %s on %s: %s" % (desc, m.tag, v), op=desc)
        if self.profile.get("invariants", True):
            viol = []
            invariants(self.sp, O.observe(m.obj)["data"], viol, self.counters)
            for v in viol:
                self.fail("bookkeeping invariant broken after %s on %s: %s" % (desc, m.tag, v), op=desc)

    def _derive(self, desc, fn, items, fillable, sources, origin, perturb=True):
        self.log.append(desc)
        before = self.texts()
        try:
            obj = fn()
        except Exception as e:  # noqa: BLE001
            self.fail("%s raised %s: %s" % (desc, type(e).__name__, str(e)[:200]), op=desc)
            return None
        self.frame(before, set(), desc)
        m = self.new_member(obj, items, fillable, origin)
        m.pure = origin != "json" and all(self.pool[s].pure for s in sources)
        self.count("op:" + origin)
        self.ghost_check(m, desc)
        if perturb and self.profile.get("perturb", True):
            # interleaved mutations of the result and of each source, re-observing everyone
            k = len(self.pool) - 1
            plan = [("fill", k)] + [("fill", s) for s in sources] + [("fillnp" if self.np_ok else "fill", k)]
            self.rng.shuffle(plan)
            self.pending.extend(plan[: self.profile.get("perturb_n", 3)])
            self.count("perturbations_scheduled:" + origin, min(len(plan), self.profile.get("perturb_n", 3)))
        return m

    def op_add(self, i):
        j = self.rng.randrange(len(self.pool))
        a, b = self.pool[i], self.pool[j]
        return self._derive("%s + %s" % (a.tag, b.tag), lambda: a.obj + b.obj, a.items + b.items, a.fillable and (b.fillable or not self.has_sparse), {i, j}, "add")

    def op_iadd(self, i):
        j = self.rng.randrange(len(self.pool))
        if j == i:  # a += a is outside C07's statement ("b is unchanged")
            j = (i + 1) % len(self.pool)
        a, b = self.pool[i], self.pool[j]
        desc = "%s += %s" % (a.tag, b.tag)
        self.log.append(desc)
        before = self.texts()
        ida = id(a.obj)
        b_items = list(b.items)
        try:
            expect = O.observe(a.obj + b.obj)
        except Exception:  # noqa: BLE001
            expect = None
        try:
            obj = a.obj
            obj += b.obj
        except Exception as e:  # noqa: BLE001
            self.fail("%s raised %s: %s" % (desc, type(e).__name__, str(e)[:200]), op=desc)
            return
        if obj is not a.obj or id(obj) != ida:
            self.fail("%s returned a different object" % desc, op=desc)
        a.items = a.items + b_items
        # sparse bins adopted from a JSON reload carry no quantity: the sum is fillable only if both sides are
        # (a live left operand of a tree without sparse containers merges child by child into its own, live children: it
        # stays fillable whatever the right operand was)
        a.fillable = a.fillable and (b.fillable or not self.has_sparse)
        a.pure = a.pure and b.pure
        self.count("op:iadd")
        self.frame(before, {i}, desc)
        if expect is not None:
            d = O.diff(expect, O.observe(a.obj), O.scale_of(a.items) if a.items else 1.0)
            self.count("iadd_vs_add")
            if d:
                self.fail("after %s the left operand differs from (old a) + b: %s" % (desc, _fmt(d)), op=desc)
        self.ghost_check(a, desc)
        if self.profile.get("perturb", True) and i != j:
            plan = [("fill", j), ("fill", i), ("fillnp" if self.np_ok else "fill", j)]
            self.pending.extend(plan[: self.profile.get("perturb_n", 3)])
            self.count("perturbations_scheduled:iadd", min(3, self.profile.get("perturb_n", 3)))

    def op_mul(self, i):
        a = self.pool[i]
        f = self.rng.choice(S.FACTORS_POS if self.rng.random() < 0.75 else S.FACTORS_NONPOS)
        left = self.rng.random() < 0.5
        desc = ("%r * %s" % (S.jsonable(f), a.tag)) if left else ("%s * %r" % (a.tag, S.jsonable(f)))
        if self.has_transform and not a.pure:
            # a JSON reload has forgotten the transform: its Counts are plain numbers, outside the ghost model
            return self.op_read(i)
        if self.has_transform:
            # a Count with a non-identity transform refuses scaling (ContainerException) when the scaling
            # reaches it; if it is not reached (empty sparse container, f <= 0) the product must still obey
            # the model, which is checked below like any other derivation
            try:
                _ = (f * a.obj) if left else (a.obj * f)
            except Exception as e:  # noqa: BLE001
                if type(e).__name__ == "ContainerException":
                    self.log.append(desc + "  [refused: transformed Count]")
                    self.count("mul_refused_transform")
                    return
        pos = isinstance(f, (int, float)) and f > 0
        items = [(r, w * f) for r, w in a.items if R.gate(w)] if pos else []
        return self._derive(desc, (lambda: f * a.obj) if left else (lambda: a.obj * f), items, a.fillable, {i}, "mul")

    def op_zero(self, i):
        a = self.pool[i]
        return self._derive("%s.zero()" % a.tag, lambda: a.obj.zero(), [], a.fillable, {i}, "zero")

    def op_copy(self, i):
        a = self.pool[i]
        return self._derive("%s.copy()" % a.tag, lambda: a.obj.copy(), a.items, a.fillable, {i}, "copy")

    def op_json(self, i):
        from histogrammar.defs import Factory

        a = self.pool[i]
        sk = self.rng.random() < 0.5  # documents written with sorted keys come back with another member order
        return self._derive("fromJson(%s.toJson()%s)" % (a.tag, ", sort_keys" if sk else ""), lambda: Factory.fromJson(json.loads(json.dumps(a.obj.toJson(), sort_keys=sk))), a.items, False, {i}, "json", perturb=False)

    def op_pickle(self, i):
        a = self.pool[i]
        proto = self.rng.choice([2, 3, 4, 5])
        return self._derive("pickle.loads(dumps(%s, %d))" % (a.tag, proto), lambda: pickle.loads(pickle.dumps(a.obj, proto)), a.items, a.fillable, {i}, "pickle")

    def op_read(self, i):
        a = self.pool[i]
        j = self.rng.randrange(len(self.pool))
        b = self.pool[j]
        what = self.rng.choice(PURE_READS + tuple(self.profile.get("reads", ())))
        desc = "%s(%s)" % (what, a.tag)
        self.log.append(desc)
        before = self.texts()
        try:
            if what == "toJson":
                a.obj.toJson()
            elif what == "toJsonString":
                a.obj.toJsonString()
            elif what == "eq":
                a.obj == b.obj  # noqa: B015
            elif what == "ne":
                a.obj != b.obj  # noqa: B015
            elif what == "hash":
                hash(a.obj)
            elif what == "repr":
                repr(a.obj)
            elif what == "children":
                list(a.obj.children)
            elif what == "n_dim":
                a.obj.n_dim  # noqa: B018
            elif what == "datatype":
                a.obj.datatype  # noqa: B018
            else:
                self.profile["read_fn"](what, a.obj, self.rng)
        except Exception as e:  # noqa: BLE001
            if self.profile.get("reads_must_succeed", False):
                self.fail("%s raised %s: %s" % (desc, type(e).__name__, str(e)[:200]), op=desc)
            else:
                self.count("read_raised:" + what)
        self.count("op:read:" + what)
        self.frame(before, set(), desc)


# ------------------------------------------------------------------------------------------------
# bookkeeping invariants on (spec, document fragment)


def _first_diff(a, b):
    """The part of fingerprint a around the first position where it differs from b."""
    n = next((j for j, (x, y) in enumerate(zip(a, b)) if x != y), min(len(a), len(b)))
    return a[max(0, n - 40) : n + 40]


def fingerprint(obj, depth=0):
    """Identity-free structural fingerprint of a real tree: kinds, key sets with their types, lengths."""
    if obj is None or depth > 8:
        return "-"
    k = type(obj).__mro__[0].__name__
    d = getattr(obj, "__dict__", {})
    parts = [k]
    # the raw numeric attributes, read from __dict__ without going through any property getter: a getter that
    # "repairs" the state it reads (and toJson calls the getters) would otherwise hide its own write
    for name in sorted(d):
        v = d[name]
        if not name.startswith("_") and isinstance(v, (int, float)) and not isinstance(v, bool):
            parts.append("%s=%r" % (name, float(v)))
    for name in ("bins", "pairs", "values"):
        v = d.get(name)
        if isinstance(v, dict):
            keys = sorted(("%s:%r" % (type(x).__name__, x) for x in v), key=str)
            parts.append("%s{%s}" % (name, ",".join(keys)))
            parts.extend(fingerprint(v[x], depth + 1) for x in sorted(v, key=lambda t: (type(t).__name__, str(t))))
        elif isinstance(v, (list, tuple)):
            parts.append("%s[%s%d]" % (name, type(v).__name__[0], len(v)))
            for e in v:
                parts.append(fingerprint(e[1] if isinstance(e, tuple) else e, depth + 1))
    for name in ("underflow", "overflow", "nanflow", "numerator", "denominator", "cut"):
        if name in d:
            parts.append(name + "=" + fingerprint(d[name], depth + 1))
    return "(" + " ".join(parts) + ")"


def accessor_violations(obj, path="$", out=None, counters=None, depth=0):
    """Invariant at a hook: the navigation accessors of a live tree (Branch.i0..i9, h(key), h.get(key), h.children)
    hand out the very sub-aggregators that the state (values / pairs, i.e. what toJson serialises and fill updates)
    holds.  A result whose accessors point at other objects reads and fills differently from what it serialises."""
    out = [] if out is None else out
    if depth > 8 or obj is None:
        return out
    from . import probes

    k = probes.base_kind(obj) or type(obj).__mro__[0].__name__
    d = getattr(obj, "__dict__", {})

    def tick(name):
        if counters is not None:
            counters["accessor:" + name] = counters.get("accessor:" + name, 0) + 1

    kids = []
    try:
        if k in ("Branch", "Index"):
            vals = list(d.get("values", ()))
            for j, v in enumerate(vals):
                if k == "Branch" and j < 10:
                    tick("Branch.iN")
                    if getattr(obj, "i%d" % j, None) is not v:
                        out.append("%s: Branch.i%d is not values[%d]" % (path, j, j))
                tick(k + ".__call__")
                if obj(j) is not v or obj.get(j) is not v:
                    out.append("%s: %s(%d) / get(%d) is not values[%d]" % (path, k, j, j, j))
                kids.append(("%s[%d]" % (path, j), v))
        elif k in ("Label", "UntypedLabel"):
            pairs = d.get("pairs", {})
            for key, v in pairs.items():
                tick(k + ".__call__")
                if obj(key) is not v or obj.get(key) is not v:
                    out.append("%s: %s(%r) / get(%r) is not pairs[%r]" % (path, k, key, key, key))
                kids.append(("%s.%s" % (path, key), v))
            if [id(v) for v in obj.values] != [id(v) for v in pairs.values()] or list(obj.keys) != list(pairs):
                out.append("%s: %s.values / keys disagree with pairs" % (path, k))
        else:
            for name in ("underflow", "overflow", "nanflow", "numerator", "denominator", "cut"):
                if name in d:
                    kids.append((path + "." + name, d[name]))
            v = d.get("values")
            if isinstance(v, (list, tuple)) and k == "Bin":
                kids.extend(("%s.values[%d]" % (path, j), e) for j, e in enumerate(v))
            b = d.get("bins")
            if isinstance(b, dict):
                kids.extend(("%s.bins[%r]" % (path, kk), e) for kk, e in b.items())
            elif isinstance(b, (list, tuple)):
                kids.extend(("%s.bins[%d]" % (path, j), e[1]) for j, e in enumerate(b))
        ch = getattr(obj, "children", None)
        if ch is not None and kids:
            tick("children")
            ids = {id(c) for c in ch}
            for pth, e in kids:
                if id(e) not in ids:
                    out.append("%s: children does not contain %s" % (path, pth))
                    break
    except Exception as e:  # noqa: BLE001
        out.append("%s: accessor raised %s: %s" % (path, type(e).__name__, str(e)[:120]))
    for pth, e in kids:
        if hasattr(e, "toJsonFragment"):
            accessor_violations(e, pth, out, counters, depth + 1)
    return out


def _close(a, b):
    if a is None or b is None:
        return True
    if math.isnan(a) or math.isnan(b):
        return math.isnan(a) and math.isnan(b)
    if math.isinf(a) or math.isinf(b):
        return a == b
    return abs(a - b) <= 1e-9 * max(abs(a), abs(b), 1.0)


def _entries(node, frag):
    if node["k"] == "Count":
        return O._num(frag)
    if isinstance(frag, dict):
        return O._num(frag.get("entries"))
    return None


def _weight_preserving(node):
    """entries of this node equal the weight it was given (false for a transformed Count)."""
    return not (node["k"] == "Count" and node.get("t"))


def invariants(node, frag, out, counters, path="$"):
    """Walk a spec and its document fragment together; append violated invariants to out."""
    k = node["k"]
    e = _entries(node, frag)

    def cnt(name):
        counters["invariant:" + name] = counters.get("invariant:" + name, 0) + 1

    if e is not None:
        cnt("entries>=0:" + k)
        if not (e >= 0.0) and not math.isnan(e):
            out.append("%s %s.entries = %r is negative" % (path, k, e))
    if k == "Bag":
        cnt("bag-sum")
        tot = sum(O._num(v["w"]) for v in frag["values"])
        if not _close(tot, e):
            out.append("%s Bag weights sum to %r, entries %r" % (path, tot, e))
        return
    if k in ("Count",) or k in S.LEAF_Q:
        return
    if k == "Bin":
        parts = [(node["value"], v, "%s.values[%d]" % (path, i)) for i, v in enumerate(frag["values"])]
        parts += [(node["under"], frag["underflow"], path + ".underflow"), (node["over"], frag["overflow"], path + ".overflow"), (node["nan"], frag["nanflow"], path + ".nanflow")]
        _partition(k, e, parts, out, cnt, path)
    elif k == "SparselyBin":
        parts = [(node["value"], v, "%s.bins[%s]" % (path, key)) for key, v in frag["bins"].items()] + [(node["nan"], frag["nanflow"], path + ".nanflow")]
        _partition(k, e, parts, out, cnt, path)
    elif k in ("CentrallyBin", "IrregularlyBin"):
        parts = [(node["value"], b["data"], "%s.bins[%d]" % (path, i)) for i, b in enumerate(frag["bins"])] + [(node["nan"], frag["nanflow"], path + ".nanflow")]
        _partition(k, e, parts, out, cnt, path)
    elif k == "Categorize":
        parts = [(node["value"], v, "%s.bins[%r]" % (path, key)) for key, v in frag["bins"].items()]
        _partition(k, e, parts, out, cnt, path)
    elif k == "Stack":
        parts = [(node["value"], b["data"], "%s.bins[%d]" % (path, i)) for i, b in enumerate(frag["bins"])] + [(node["nan"], frag["nanflow"], path + ".nanflow")]
        if _weight_preserving(node["value"]):
            levels = [_entries(node["value"], b["data"]) for b in frag["bins"]]
            th = [O._num(b["atleast"]) for b in frag["bins"]]
            if all(x < y for x, y in zip(th, th[1:])):
                cnt("stack-monotone")
                for a, b in zip(levels, levels[1:]):
                    if b > a * (1 + 1e-9) + 1e-12:
                        out.append("%s Stack levels increase: %r" % (path, levels))
                        break
            if _weight_preserving(node["nan"]):
                cnt("stack-level0+nanflow")
                if not _close(levels[0] + _entries(node["nan"], frag["nanflow"]), e):
                    out.append("%s Stack level0 %r + nanflow %r != entries %r" % (path, levels[0], _entries(node["nan"], frag["nanflow"]), e))
    elif k == "Fraction":
        parts = [(node["value"], frag["numerator"], path + ".numerator"), (node["value"], frag["denominator"], path + ".denominator")]
        if _weight_preserving(node["value"]):
            cnt("fraction-denominator")
            de = _entries(node["value"], frag["denominator"])
            if not _close(de, e):
                out.append("%s Fraction denominator entries %r != entries %r" % (path, de, e))
    elif k == "Select":
        parts = [(node["cut"], frag["data"], path + ".cut")]
    elif k in ("Label", "UntypedLabel"):
        parts = []
        for key, ch in node["pairs"].items():
            f = frag["data"][key]
            parts.append((ch, f["data"] if k == "UntypedLabel" else f, "%s.%s" % (path, key)))
        _same(k, e, parts, out, cnt, path)
    elif k in ("Index", "Branch"):
        parts = []
        for i, ch in enumerate(node["values"]):
            f = frag["data"][i]
            parts.append((ch, f["data"] if k == "Branch" else f, "%s[%d]" % (path, i)))
        _same(k, e, parts, out, cnt, path)
    else:
        return
    for ch, f, p in parts:
        invariants(ch, f, out, counters, p)


def _partition(k, e, parts, out, cnt, path):
    if all(_weight_preserving(ch) for ch, _, _ in parts):
        cnt("partition-sum:" + k)
        tot = sum(_entries(ch, f) for ch, f, _ in parts)
        if not _close(tot, e):
            out.append("%s %s bins+flows sum to %r, entries %r" % (path, k, tot, e))


def _same(k, e, parts, out, cnt, path):
    for ch, f, p in parts:
        if _weight_preserving(ch):
            cnt("collection-child-entries:" + k)
            ce = _entries(ch, f)
            if not _close(ce, e):
                out.append("%s child entries %r != %s entries %r" % (p, ce, k, e))


def _fmt(d, n=3):
    return "; ".join("%s: %r vs %r" % (p, a, b) for p, a, b in d[:n])


def _short(rec):
    return "{" + ",".join("%s=%s" % (k, S.jsonable(v)) for k, v in rec.items()) + "}"


def permute_keys(sp, rng):
    """The same tree with the members of every Label / UntypedLabel listed in another order (a user who
    writes the keyword arguments in a different order, a document written with sort_keys=True)."""
    import copy

    sp = copy.deepcopy(sp)
    for _, n in S.walk(sp):
        if n["k"] in ("Label", "UntypedLabel") and len(n["pairs"]) > 1:
            keys = list(n["pairs"])
            rng.shuffle(keys)
            n["pairs"] = {k: n["pairs"][k] for k in keys}
    return sp


def run_history(sp, rng, profile, n_ops, pool_size, force=None):
    h = History(sp, rng, profile, force)
    for j in range(pool_size):
        spj = permute_keys(sp, rng) if (j % 2 == 1 and profile.get("permute_keys", True)) else sp
        h.new_member(S.build(spj, force), [], True, "build")
    steps = 0
    while steps < n_ops or (h.pending and steps < n_ops + 8):
        h.step()
        steps += 1
        if len(h.failures) >= 1 or len(h.pool) > profile.get("max_pool", 12):
            break
    return h
