#!/bin/bash
# Offline setup: nothing is installed. Verify the interpreter can import the tree under test.
cd "$(dirname "$0")"
mkdir -p out/replay out/tmp evidence
PYTHONPATH="$PWD" /venv/bin/python - <<'PY'
import numpy, pandas
from hgmon import env
hg = env.hg()
print("setup ok: histogrammar from", hg.__file__, "numpy", numpy.__version__, "pandas", pandas.__version__)
PY
